package main

// kvh cfghash: measures what the configuration hash (prom.ConfigManager.ConfigInfo().ConfigHash)
// can see.  A catalogue configuration with every section is edited one leaf at a time (scalars,
// list entries, regular expressions, secrets, discovery options), re-formatted, and its external
// labels changed; for every edit the hash is computed in this process, in a fresh child process
// (coordinator and sidecar are different processes) and read back through GET /runtimeinfo/ of a
// real sidecar service that was pushed the edited configuration.
//
// kvh cfgsync: replays the protocol consequence on the real code: the coordinator (real
// Coordinator cycle) reloads an edited configuration while a real sidecar still runs the old one.

import (
	"bufio"
	"encoding/json"
	"flag"
	"fmt"
	"os"
	"os/exec"
	"path/filepath"
	"reflect"
	"regexp"
	"strconv"
	"strings"
	"time"

	"github.com/prometheus/client_golang/prometheus"
	"gopkg.in/yaml.v2"
	"tkestack.io/kvass/pkg/coordinator"
	"tkestack.io/kvass/pkg/discovery"
	"tkestack.io/kvass/pkg/prom"
	"tkestack.io/kvass/pkg/shard"
	"tkestack.io/kvass/pkg/target"
)

func init() {
	commands["cfghash"] = cmdCfgHash
	commands["cfghash-child"] = cmdCfgHashChild
	commands["cfgsync"] = cmdCfgSync
}

const catalogueYAML = `global:
  scrape_interval: 15s
  scrape_timeout: 10s
  evaluation_interval: 30s
  query_log_file: /tmp/query.log
  external_labels:
    cluster: c1
    replica: r0
rule_files:
- /etc/prometheus/rules/*.yml
- relative/rules/a.yml
alerting:
  alert_relabel_configs:
  - source_labels: [severity]
    regex: info
    action: drop
  alertmanagers:
  - scheme: https
    path_prefix: /am
    timeout: 7s
    api_version: v2
    basic_auth:
      username: amuser
      password: ampass
    static_configs:
    - targets: ["am1:9093", "am2:9093"]
    relabel_configs:
    - source_labels: [__address__]
      regex: am1.*
      action: keep
scrape_configs:
- job_name: node
  honor_labels: true
  honor_timestamps: false
  scrape_interval: 20s
  scrape_timeout: 8s
  metrics_path: /metrics
  scheme: https
  sample_limit: 1000
  target_limit: 50
  label_limit: 30
  params:
    module: [a, b]
    format: [prom]
  basic_auth:
    username: scraper
    password: scrapepass
  tls_config:
    insecure_skip_verify: true
    server_name: node.example
    ca_file: certs/ca.pem
  relabel_configs:
  - source_labels: [__meta_kubernetes_pod_label_app, __meta_kubernetes_namespace]
    separator: ;
    regex: (.+);prod
    target_label: app
    replacement: $1
    action: replace
  - source_labels: [__address__]
    modulus: 8
    target_label: __tmp_hash
    action: hashmod
  - regex: __meta_kubernetes_pod_label_(.+)
    action: labelmap
  - regex: tmp_(.+)
    action: labeldrop
  metric_relabel_configs:
  - regex: (__name__|le|job|instance|app|keep_.*)
    action: labelkeep
  - source_labels: [__name__]
    regex: go_.*
    action: drop
  - source_labels: [__name__, le]
    regex: req_duration_bucket;(0.1|0.5)
    action: drop
  kubernetes_sd_configs:
  - role: pod
    namespaces:
      names: [default, prod]
  static_configs:
  - targets: ["n1:9100", "n2:9100"]
    labels:
      rack: r1
  file_sd_configs:
  - files: ["/etc/sd/*.json", "sd/relative-*.json"]
    refresh_interval: 3m
- job_name: app
  bearer_token: apptoken
  proxy_url: http://proxy.local:3128
  static_configs:
  - targets: ["a1:8080"]
  relabel_configs:
  - source_labels: [job]
    regex: app
    action: keep
remote_write:
- url: http://rw1.example/api/v1/write
  remote_timeout: 25s
  name: rw1
  basic_auth:
    username: rwuser
    password: rwpass
  write_relabel_configs:
  - source_labels: [__name__]
    regex: expensive_.*
    action: drop
  - regex: internal_(.+)
    action: labeldrop
  queue_config:
    capacity: 500
    max_shards: 20
    batch_send_deadline: 6s
- url: http://rw2.example/api/v1/write
  bearer_token: rw2token
remote_read:
- url: http://rr1.example/api/v1/read
  remote_timeout: 40s
  read_recent: true
  required_matchers:
    tier: gold
  basic_auth:
    username: rruser
    password: rrpass
`

type chEdit struct {
	Path  string `json:"path"`
	Class string `json:"class"`
	Kind  string `json:"kind"` // semantic | format | extlabel
	What  string `json:"what"`
	YAML  string `json:"-"`
}

var idxRe = regexp.MustCompile(`\[\d+\]`)

func classOf(path string) string { return idxRe.ReplaceAllString(path, "[]") }

var durRe = regexp.MustCompile(`^(\d+)(ms|s|m|h|d)$`)

// mutateScalar returns a changed value of the same kind, or nil
func mutateScalar(key string, v interface{}) interface{} {
	switch x := v.(type) {
	case bool:
		return !x
	case int:
		return x + 1
	case string:
		if m := durRe.FindStringSubmatch(x); m != nil {
			n, _ := strconv.Atoi(m[1])
			return fmt.Sprintf("%d%s", n+1, m[2])
		}
		switch key {
		case "regex":
			return x + "|zzz"
		case "action":
			if x == "drop" {
				return "keep"
			}
			if x == "keep" {
				return "drop"
			}
			return nil
		case "scheme":
			if x == "https" {
				return "http"
			}
			return "https"
		case "role":
			return "node"
		case "api_version":
			return "v1"
		case "url", "proxy_url":
			return x + "x"
		case "replacement":
			return x + "x"
		}
		return x + "x"
	}
	return nil
}

func deepCopy(v interface{}) interface{} {
	switch x := v.(type) {
	case yaml.MapSlice:
		out := make(yaml.MapSlice, len(x))
		for i, it := range x {
			out[i] = yaml.MapItem{Key: it.Key, Value: deepCopy(it.Value)}
		}
		return out
	case []interface{}:
		out := make([]interface{}, len(x))
		for i, it := range x {
			out[i] = deepCopy(it)
		}
		return out
	}
	return v
}

// walk calls f for every node with a setter that replaces the node in a deep copy of root
func walkYAML(root yaml.MapSlice, f func(path, key string, node interface{}, replace func(nv interface{}) yaml.MapSlice)) {
	var rec func(cur interface{}, path, key string, set func(r yaml.MapSlice, nv interface{}))
	rec = func(cur interface{}, path, key string, set func(r yaml.MapSlice, nv interface{})) {
		if set != nil {
			f(path, key, cur, func(nv interface{}) yaml.MapSlice {
				r := deepCopy(root).(yaml.MapSlice)
				set(r, nv)
				return r
			})
		}
		switch x := cur.(type) {
		case yaml.MapSlice:
			for i := range x {
				i := i
				k := fmt.Sprint(x[i].Key)
				p := k
				if path != "" {
					p = path + "." + k
				}
				get := nodeGetter(path)
				rec(x[i].Value, p, k, func(r yaml.MapSlice, nv interface{}) {
					m := get(r).(yaml.MapSlice)
					m[i].Value = nv
				})
			}
		case []interface{}:
			for i := range x {
				i := i
				p := fmt.Sprintf("%s[%d]", path, i)
				get := nodeGetter(path)
				rec(x[i], p, key, func(r yaml.MapSlice, nv interface{}) {
					l := get(r).([]interface{})
					l[i] = nv
				})
			}
		}
	}
	rec(root, "", "", nil)
}

// nodeGetter resolves a path like a.b[1].c in a root copy
func nodeGetter(path string) func(r yaml.MapSlice) interface{} {
	return func(r yaml.MapSlice) interface{} {
		var cur interface{} = r
		if path == "" {
			return cur
		}
		for _, part := range strings.Split(path, ".") {
			name := part
			var idxs []int
			for strings.HasSuffix(name, "]") {
				o := strings.LastIndex(name, "[")
				n, _ := strconv.Atoi(name[o+1 : len(name)-1])
				idxs = append([]int{n}, idxs...)
				name = name[:o]
			}
			m := cur.(yaml.MapSlice)
			for _, it := range m {
				if fmt.Sprint(it.Key) == name {
					cur = it.Value
					break
				}
			}
			for _, n := range idxs {
				cur = cur.([]interface{})[n]
			}
		}
		return cur
	}
}

func genEdits() []chEdit {
	var root yaml.MapSlice
	if err := yaml.Unmarshal([]byte(catalogueYAML), &root); err != nil {
		panic(err)
	}
	var out []chEdit
	emit := func(path, kind, what string, r yaml.MapSlice) {
		b, err := yaml.Marshal(r)
		if err != nil {
			return
		}
		out = append(out, chEdit{Path: path, Class: classOf(path), Kind: kind, What: what, YAML: string(b)})
	}
	walkYAML(root, func(path, key string, node interface{}, replace func(nv interface{}) yaml.MapSlice) {
		kind := "semantic"
		if strings.HasPrefix(path, "global.external_labels") {
			kind = "extlabel"
		}
		switch x := node.(type) {
		case yaml.MapSlice, nil:
			_ = x
		case []interface{}:
			if len(x) > 0 {
				if _, scalar := x[0].(string); scalar {
					emit(path, kind, "list entry added", replace(append(append([]interface{}{}, x...), x[0].(string)+"2")))
				}
				if len(x) > 1 {
					emit(path, kind, "list entry removed", replace(append([]interface{}{}, x[1:]...)))
					// the order of a list is part of the configuration (relabel rules run in order, the first params value is the default ...)
					if !reflect.DeepEqual(x[0], x[1]) {
						sw := append([]interface{}{}, x...)
						sw[0], sw[1] = sw[1], sw[0]
						emit(path+"[order]", kind, "first two list entries swapped", replace(sw))
					}
				}
			}
		default:
			if nv := mutateScalar(key, node); nv != nil {
				emit(path, kind, fmt.Sprintf("%v -> %v", node, nv), replace(nv))
			}
		}
	})
	// external labels: add one
	{
		r := deepCopy(root).(yaml.MapSlice)
		g := nodeGetter("global")(r).(yaml.MapSlice)
		for i := range g {
			if fmt.Sprint(g[i].Key) == "external_labels" {
				g[i].Value = append(g[i].Value.(yaml.MapSlice), yaml.MapItem{Key: "zone", Value: "z9"})
			}
		}
		emit("global.external_labels", "extlabel", "label added", r)
	}
	// formatting: canonical re-marshal, reversed key order everywhere, comments and blank lines, flow vs block
	{
		emit("", "format", "re-marshalled by yaml.v2", deepCopy(root).(yaml.MapSlice))
		var rev func(v interface{}) interface{}
		rev = func(v interface{}) interface{} {
			switch x := v.(type) {
			case yaml.MapSlice:
				o := make(yaml.MapSlice, 0, len(x))
				for i := len(x) - 1; i >= 0; i-- {
					o = append(o, yaml.MapItem{Key: x[i].Key, Value: rev(x[i].Value)})
				}
				return o
			case []interface{}:
				o := make([]interface{}, len(x))
				for i := range x {
					o[i] = rev(x[i])
				}
				return o
			}
			return v
		}
		emit("", "format", "all mapping keys in reverse order", rev(root).(yaml.MapSlice))
		out = append(out, chEdit{Path: "", Class: "", Kind: "format", What: "comments and blank lines",
			YAML: "# a comment\n\n" + strings.Replace(catalogueYAML, "scrape_configs:", "\n# the jobs\nscrape_configs:", 1) + "\n# trailing\n"})
		out = append(out, chEdit{Path: "", Class: "", Kind: "format", What: "quoting and flow style",
			YAML: strings.Replace(strings.Replace(catalogueYAML, "scrape_interval: 15s", "scrape_interval: \"15s\"", 1), "module: [a, b]", "module:\n    - a\n    - \"b\"", 1)})
	}
	return out
}

// fileHashOf: the coordinator reads its configuration from a file (ReloadFromFile), the sidecars get the
// same bytes pushed (ReloadFromRaw): both must arrive at the same hash
func fileHashOf(dir, yamlText string) (string, error) {
	f := filepath.Join(dir, "sub", "prometheus.yml")
	_ = os.MkdirAll(filepath.Dir(f), 0755)
	if err := os.WriteFile(f, []byte(yamlText), 0644); err != nil {
		return "", err
	}
	m := prom.NewConfigManager()
	if err := m.ReloadFromFile(f); err != nil {
		return "", err
	}
	return m.ConfigInfo().ConfigHash, nil
}

func hashOf(yamlText string) (string, error) {
	m := prom.NewConfigManager()
	if err := m.ReloadFromRaw([]byte(yamlText)); err != nil {
		return "", err
	}
	return m.ConfigInfo().ConfigHash, nil
}

func fileEq(dir, y, h string) bool {
	fh, err := fileHashOf(dir, y)
	return err == nil && fh == h
}

func cmdCfgHashChild(args []string) error {
	rd := bufio.NewReaderSize(os.Stdin, 1<<20)
	dec := json.NewDecoder(rd)
	enc := json.NewEncoder(os.Stdout)
	for {
		var y string
		if err := dec.Decode(&y); err != nil {
			return nil
		}
		h, err := hashOf(y)
		if err != nil {
			h = "ERR"
		}
		_ = enc.Encode(h)
	}
}

func cmdCfgHash(args []string) error {
	fs := flag.NewFlagSet("cfghash", flag.ExitOnError)
	out := fs.String("out", "", "observations")
	_ = fs.Parse(args)
	wr, err := newNDWriter(*out)
	if err != nil {
		return err
	}
	defer wr.Close()
	base, err := hashOf(catalogueYAML)
	if err != nil {
		return fmt.Errorf("catalogue does not load: %v", err)
	}
	edits := genEdits()
	// child process: same texts, hashes computed there
	self, _ := os.Executable()
	child := exec.Command(self, "cfghash-child")
	stdin, _ := child.StdinPipe()
	stdout, _ := child.StdoutPipe()
	if err := child.Start(); err != nil {
		return err
	}
	cenc := json.NewEncoder(stdin)
	cdec := json.NewDecoder(stdout)
	childHash := func(y string) string {
		_ = cenc.Encode(y)
		var h string
		if err := cdec.Decode(&h); err != nil {
			return "ERR"
		}
		return h
	}
	childBase := childHash(catalogueYAML)
	// a real sidecar service that is pushed each configuration: hash as reported over the API
	dir, err := os.MkdirTemp("", "kvh-cfghash-")
	if err != nil {
		return err
	}
	defer cleanupDir(dir)
	w := newSideWorld(dir, "")
	apiHash := func(y string) string {
		if err := w.apiPost("/api/v1/status/config", &shard.UpdateConfigRequest{RawContent: y}, nil); err != nil {
			return "ERR"
		}
		rt := &shard.RuntimeInfo{}
		if err := w.apiGet("/api/v1/shard/runtimeinfo/", &rt); err != nil {
			return "ERR"
		}
		return rt.ConfigHash
	}
	_ = wr.Write(map[string]interface{}{"path": "", "class": "", "kind": "base", "what": "catalogue", "loads": true,
		"changed": false, "childEqual": childBase == base, "apiEqual": apiHash(catalogueYAML) == base, "fileEqual": fileEq(dir, catalogueYAML, base)})
	for _, e := range edits {
		h, err := hashOf(e.YAML)
		rec := map[string]interface{}{"path": e.Path, "class": e.Class, "kind": e.Kind, "what": e.What}
		if err != nil {
			rec["loads"] = false
			_ = wr.Write(rec)
			continue
		}
		rec["loads"] = true
		rec["changed"] = h != base
		rec["childEqual"] = childHash(e.YAML) == h
		rec["apiEqual"] = apiHash(e.YAML) == h
		rec["fileEqual"] = fileEq(dir, e.YAML, h)
		_ = wr.Write(rec)
	}
	_ = stdin.Close()
	_ = child.Wait()
	return nil
}

// ---- protocol replay: coordinator reloads an edited configuration, the sidecar still runs the old one ----

func cmdCfgSync(args []string) error {
	fs := flag.NewFlagSet("cfgsync", flag.ExitOnError)
	out := fs.String("out", "", "observations")
	paths := fs.String("paths", "", "comma separated leaf paths whose edit is replayed")
	_ = fs.Parse(args)
	wr, err := newNDWriter(*out)
	if err != nil {
		return err
	}
	defer wr.Close()
	want := map[string]bool{}
	for _, p := range strings.Split(*paths, ",") {
		if p != "" {
			want[p] = true
		}
	}
	done := map[string]bool{}
	for _, e := range genEdits() {
		if !want[e.Path] || done[e.Path] || e.Kind == "format" {
			continue
		}
		if _, err := hashOf(e.YAML); err != nil {
			continue
		}
		done[e.Path] = true
		dir, err := os.MkdirTemp("", "kvh-cfgsync-")
		if err != nil {
			return err
		}
		fileMode := len(done)%3 == 1
		var w *sideWorld
		cfgFile := filepath.Join(dir, "prometheus.yml")
		if fileMode {
			// the sidecar reads its configuration from a file (and again on POST /-/reload/)
			_ = os.WriteFile(cfgFile, []byte(catalogueYAML), 0644)
			w = newSideWorldFile(dir, "", cfgFile)
		} else {
			w = newSideWorld(dir, "")
			// the shard runs the catalogue (pushed by an earlier cycle)
			_ = w.apiPost("/api/v1/status/config", &shard.UpdateConfigRequest{RawContent: catalogueYAML}, nil)
		}
		promDown := len(done)%3 == 0
		// the shard's Prometheus does not take the reload that the push of the edited configuration asks for (once)
		reloadFails := !fileMode && !promDown && len(done)%2 == 1
		coordYAML := e.YAML
		if promDown || fileMode {
			coordYAML = catalogueYAML
		}
		// the coordinator has reloaded the edited configuration
		cm := prom.NewConfigManager()
		withExtra := len(done)%2 == 0
		if withExtra {
			// an administrator has stopped scraping (extra config, process-local) before the reload
			_ = cm.UpdateExtraConfig(prom.ExtraConfig{StopScrapeReason: "maintenance"})
		}
		if err := cm.ReloadFromRaw([]byte(coordYAML)); err != nil {
			cleanupDir(dir)
			continue
		}
		reqs := []string{}
		mgr := &syncManager{w: w, reqs: &reqs}
		c := coordinator.NewCoordinator(&coordinator.Option{MaxProcessSeries: 1000, MaxShard: 9, MinShard: 1, Period: time.Second},
			&syncRM{mgr}, cm.ConfigInfo,
			func(uint64) *target.ScrapeStatus { return nil },
			func() map[uint64]*discovery.SDTargets { return map[uint64]*discovery.SDTargets{} },
			prometheus.NewRegistry(), quietLog())
		if promDown {
			// an earlier cycle of this coordinator (on the catalogue, like the shard) found the shard in sync; now the shard's
			// Prometheus is down (head series not available) and the shard is given the edited configuration by somebody else,
			// while THIS coordinator stays on the catalogue
			_ = c.VerifRunOnce()
			reqs = reqs[:0]
			w.promDown = true
			_ = w.apiPost("/api/v1/status/config", &shard.UpdateConfigRequest{RawContent: e.YAML}, nil)
		}
		if fileMode {
			// an earlier cycle of this coordinator found the shard in sync (both on the catalogue); then the shard's file is
			// edited and reloaded by hand, and the coordinator - still on the catalogue - runs its next cycle right away
			_ = c.VerifRunOnce()
			reqs = reqs[:0]
			var rt0 *shard.RuntimeInfo
			_ = w.apiGet("/api/v1/shard/runtimeinfo/", &rt0) // somebody else (another coordinator, a dashboard) asks in between
			_ = os.WriteFile(cfgFile, []byte(e.YAML), 0644)
			if err := w.apiPost("/-/reload/", nil, nil); err != nil {
				_ = w.apiPost("/-/reload", nil, nil)
			}
		}
		w.cfgFailNext = reloadFails
		_ = c.VerifRunOnce()
		w.cfgFailNext = false
		applied := false
		for _, r := range reqs {
			if r == "targets" || r == "extra" {
				applied = true
			}
		}
		same := string(w.cfgm.ConfigInfo().RawContent) == coordYAML
		pushed := false
		for _, r := range reqs {
			pushed = pushed || r == "cfg"
		}
		// a second cycle: the shard that now holds the coordinator's content has to be found in sync
		// (if its Prometheus was down, an operator has meanwhile pushed the configuration by hand and Prometheus is back)
		if promDown {
			w.promDown = false // Prometheus is back
		}
		// ... or the edit is taken back: the coordinator reloads the configuration the shard has been holding all along
		takenBack := reloadFails && len(done)%4 == 1
		if takenBack {
			if err := cm.ReloadFromRaw([]byte(catalogueYAML)); err == nil {
				coordYAML = catalogueYAML
			} else {
				takenBack = false
			}
		}
		reqs1 := append([]string{}, reqs...)
		reqs = reqs[:0]
		mgr.ranAtApply = ""
		_ = c.VerifRunOnce()
		applied2, pushed2 := false, false
		for _, r := range reqs {
			applied2 = applied2 || r == "targets" || r == "extra"
			pushed2 = pushed2 || r == "cfg" || r == "cfg-rejected"
		}
		same2 := string(w.cfgm.ConfigInfo().RawContent) == coordYAML
		_ = wr.Write(map[string]interface{}{"path": e.Path, "class": e.Class, "kind": e.Kind, "what": e.What, "withExtraConfig": withExtra, "prometheusWasDown": promDown, "sidecarInFileMode": fileMode,
			"reqs": reqs1, "treatedInSync": applied, "shardRunsCoordinatorConfig": same, "pushed": pushed,
			"reqs2": append([]string{}, reqs...), "treatedInSync2": applied2, "pushedAgain": pushed2, "shardRunsCoordinatorConfig2": same2,
			"reloadFailedAtPush": reloadFails, "prometheusRanCoordinatorConfigWhenTreatedInSync2": !applied2 || mgr.ranAtApply == coordYAML,
			"editTakenBack": takenBack, "prometheusRunsCoordinatorConfigAfter2": !applied2 || w.loadedFrom == coordYAML})
		cleanupDir(dir)
	}
	return nil
}

type syncRM struct{ m *syncManager }

func (r *syncRM) Replicas() ([]shard.Manager, error) { return []shard.Manager{r.m}, nil }

type syncManager struct {
	w          *sideWorld
	reqs       *[]string
	ranAtApply string // what the shard's Prometheus ran with when the first targets / extra-config request of a cycle arrived
}

func (m *syncManager) ChangeScale(int32) error { return nil }
func (m *syncManager) Shards() ([]*shard.Shard, error) {
	sd := shard.NewShard("shard-0", "http://shard-0", true, quietLog())
	strip := func(u string) string { return strings.TrimPrefix(u, "http://shard-0") }
	sd.APIGet = func(u string, ret interface{}) error {
		*m.reqs = append(*m.reqs, "get")
		return m.w.apiGet(strip(u), ret)
	}
	sd.APIPost = func(u string, req interface{}, ret interface{}) error {
		switch {
		case strings.HasSuffix(u, "/status/config"):
			err := m.w.apiPost(strip(u), req, ret)
			if err != nil {
				*m.reqs = append(*m.reqs, "cfg-rejected") // e.g. a sidecar in file mode does not take pushed configurations
			} else {
				*m.reqs = append(*m.reqs, "cfg")
			}
			return err
		case strings.HasSuffix(u, "/extra_config"):
			*m.reqs = append(*m.reqs, "extra")
			if m.ranAtApply == "" {
				m.ranAtApply = m.w.loadedFrom
			}
		default:
			*m.reqs = append(*m.reqs, "targets")
			if m.ranAtApply == "" {
				m.ranAtApply = m.w.loadedFrom
			}
		}
		return m.w.apiPost(strip(u), req, ret)
	}
	return []*shard.Shard{sd}, nil
}
