package main

// kvh coordapi: for every (world, query) sampled by TLC from spec/MCCoordAPI.tla, builds the real
// coordinator.Service over that world (active / dropped targets of the discovery, published global
// scrape status) and records what GET /api/v1/targets?<query> and GET /api/v1/runtimeinfo answer.

import (
	"encoding/json"
	"flag"
	"fmt"
	"net/http/httptest"
	"net/url"
	"sort"

	"github.com/gin-gonic/gin"
	"github.com/prometheus/client_golang/prometheus"
	"github.com/prometheus/common/model"
	"github.com/prometheus/prometheus/model/labels"
	pscrape "github.com/prometheus/prometheus/scrape"
	"io"
	"tkestack.io/kvass/pkg/coordinator"
	"tkestack.io/kvass/pkg/discovery"
	"tkestack.io/kvass/pkg/prom"
	kscrape "tkestack.io/kvass/pkg/scrape"
	"tkestack.io/kvass/pkg/target"
)

func init() { commands["coordapi"] = cmdCoordAPI }

type caJob struct {
	Name    string   `json:"name"`
	Active  []uint64 `json:"active"`
	Dropped []uint64 `json:"dropped"`
}
type caStatus struct {
	ID     uint64   `json:"id"`
	Health string   `json:"health"`
	Series int64    `json:"series"`
	Total  int64    `json:"total"`
	Shards []string `json:"shards"`
}
type caPat struct {
	Re string `json:"re"`
}
type caCase struct {
	W struct {
		Jobs   []caJob    `json:"jobs"`
		Status []caStatus `json:"status"`
	} `json:"w"`
	Q struct {
		State      string   `json:"state"`
		Statistics string   `json:"statistics"`
		Jobs       []caPat  `json:"jobs"`
		Health     []string `json:"health"`
	} `json:"q"`
}
type caEntry struct {
	Job    string   `json:"job"`
	ID     uint64   `json:"id"`
	Health string   `json:"health"`
	Series int64    `json:"series"`
	Total  int64    `json:"total"`
	Shards []string `json:"shards"`
}
type caStat struct {
	Job     string `json:"job"`
	Total   uint64 `json:"total"`
	Up      uint64 `json:"up"`
	Down    uint64 `json:"down"`
	Unknown uint64 `json:"unknown"`
}
type caAnswer struct {
	Error   bool      `json:"error"`
	Active  []caEntry `json:"active"`
	Stats   []caStat  `json:"stats"`
	Dropped []uint64  `json:"dropped"`
	Code    int       `json:"code"`
	Mutated bool      `json:"mutated"`         // the query changed the lists the discovery handed out
	Other   string    `json:"other,omitempty"` // anything in the answer the projection has no place for
}

func caTarget(job string, id uint64, dropped bool) *discovery.SDTargets {
	disc := labels.FromMap(map[string]string{model.AddressLabel: fmt.Sprintf("10.2.0.%d:9100", id), "__meta_id": fmt.Sprint(id), model.JobLabel: job})
	lbls := labels.Labels{}
	if !dropped {
		lbls = labels.FromMap(map[string]string{model.AddressLabel: fmt.Sprintf("10.2.0.%d:9100", id), model.InstanceLabel: fmt.Sprintf("10.2.0.%d:9100", id),
			model.JobLabel: job, "id": fmt.Sprint(id), model.SchemeLabel: "http", model.MetricsPathLabel: "/metrics"})
	}
	return &discovery.SDTargets{Job: job, PromTarget: pscrape.NewTarget(lbls, disc, nil), ShardTarget: &target.Target{Hash: id, Labels: lbls}}
}

func cmdCoordAPI(args []string) error {
	fs := flag.NewFlagSet("coordapi", flag.ExitOnError)
	in := fs.String("in", "", "cases (ndjson)")
	out := fs.String("out", "", "observations (ndjson)")
	_ = fs.Parse(args)
	wr, err := newNDWriter(*out)
	if err != nil {
		return err
	}
	defer wr.Close()
	gin.SetMode(gin.ReleaseMode)
	gin.DefaultWriter = io.Discard
	gin.DefaultErrorWriter = io.Discard
	return readNDJSON(*in, func(line []byte) error {
		var rec struct {
			N    int                    `json:"n"`
			Case caCase                 `json:"case"`
			Out  map[string]interface{} `json:"out"`
		}
		if err := json.Unmarshal(line, &rec); err != nil {
			return err
		}
		ans, rt := runCoordAPICase(&rec.Case)
		return wr.Write(map[string]interface{}{"n": rec.N, "targets": ans, "runtime": rt})
	})
}

func runCoordAPICase(c *caCase) (caAnswer, map[string]int64) {
	active := map[string][]*discovery.SDTargets{}
	dropped := map[string][]*discovery.SDTargets{}
	yaml := "global:\n  scrape_interval: 15s\nscrape_configs:\n"
	for _, j := range c.W.Jobs {
		yaml += fmt.Sprintf("- job_name: %s\n", j.Name)
		active[j.Name] = []*discovery.SDTargets{}
		for _, id := range j.Active {
			active[j.Name] = append(active[j.Name], caTarget(j.Name, id, false))
		}
		if len(j.Dropped) > 0 {
			for _, id := range j.Dropped {
				dropped[j.Name] = append(dropped[j.Name], caTarget(j.Name, id, true))
			}
		}
	}
	if len(c.W.Jobs) == 0 {
		yaml += "- job_name: none\n"
	}
	status := map[uint64]*target.ScrapeStatus{}
	for _, s := range c.W.Status {
		st := target.NewScrapeStatus(s.Series, s.Total)
		st.Health = pscrape.TargetHealth(s.Health)
		st.Shards = append([]string{}, s.Shards...)
		status[s.ID] = st
	}
	cm := prom.NewConfigManager()
	if err := cm.ReloadFromRaw([]byte(yaml)); err != nil {
		return caAnswer{Other: "config: " + err.Error()}, nil
	}
	svc := coordinator.NewService("", cm,
		func(string, bool) (map[string]*kscrape.StatisticsSeriesResult, error) {
			return map[string]*kscrape.StatisticsSeriesResult{}, nil
		},
		func() map[uint64]*target.ScrapeStatus { return status },
		func() map[string][]*discovery.SDTargets { return active },
		func() map[string][]*discovery.SDTargets { return dropped },
		prometheus.NewRegistry(), quietLog())
	q := url.Values{}
	if c.Q.State != "" {
		q.Set("state", c.Q.State)
	}
	if c.Q.Statistics != "" {
		q.Set("statistics", c.Q.Statistics)
	}
	for _, p := range c.Q.Jobs {
		q.Add("job", p.Re)
	}
	for _, h := range c.Q.Health {
		q.Add("health", h)
	}
	rec := httptest.NewRecorder()
	svc.ServeHTTP(rec, httptest.NewRequest("GET", "/api/v1/targets?"+q.Encode(), nil))
	ans := caAnswer{Code: rec.Code, Active: []caEntry{}, Stats: []caStat{}, Dropped: []uint64{}}
	var body struct {
		Status string `json:"status"`
		Data   struct {
			ActiveTargets []struct {
				Labels      map[string]string `json:"labels"`
				ScrapePool  string            `json:"scrapePool"`
				Health      string            `json:"health"`
				Series      int64             `json:"series"`
				TotalSeries int64             `json:"totalSeries"`
				Shards      []string          `json:"shards"`
			} `json:"activeTargets"`
			ActiveStatistics []struct {
				JobName string
				Total   uint64
				Health  map[string]uint64
			} `json:"activeStatistics"`
			DroppedTargets []struct {
				DiscoveredLabels map[string]string `json:"discoveredLabels"`
			} `json:"droppedTargets"`
		} `json:"data"`
	}
	if err := json.Unmarshal(rec.Body.Bytes(), &body); err != nil {
		ans.Other = "answer does not parse: " + err.Error()
		return ans, nil
	}
	ans.Error = rec.Code != 200 || body.Status != "success"
	if !ans.Error {
		for _, t := range body.Data.ActiveTargets {
			var id uint64
			fmt.Sscan(t.Labels["id"], &id)
			sh := t.Shards
			if sh == nil {
				sh = []string{}
			}
			if t.Labels[model.JobLabel] != t.ScrapePool {
				ans.Other += fmt.Sprintf(" target %d: scrapePool %q, job label %q;", id, t.ScrapePool, t.Labels[model.JobLabel])
			}
			ans.Active = append(ans.Active, caEntry{Job: t.ScrapePool, ID: id, Health: t.Health, Series: t.Series, Total: t.TotalSeries, Shards: sh})
		}
		for _, s := range body.Data.ActiveStatistics {
			st := caStat{Job: s.JobName, Total: s.Total, Up: s.Health["up"], Down: s.Health["down"], Unknown: s.Health["unknown"]}
			keys := []string{}
			for k := range s.Health {
				if k != "up" && k != "down" && k != "unknown" {
					keys = append(keys, k)
				}
			}
			sort.Strings(keys)
			if len(keys) > 0 {
				ans.Other += fmt.Sprintf(" statistics of %s count health values %v;", s.JobName, keys)
			}
			ans.Stats = append(ans.Stats, st)
		}
		for _, d := range body.Data.DroppedTargets {
			var id uint64
			fmt.Sscan(d.DiscoveredLabels["__meta_id"], &id)
			ans.Dropped = append(ans.Dropped, id)
		}
	}
	// a query is a read: the lists it was given must be what they were
	for _, j := range c.W.Jobs {
		if len(active[j.Name]) != len(j.Active) {
			ans.Mutated = true
			continue
		}
		for i, id := range j.Active {
			if active[j.Name][i] == nil || active[j.Name][i].ShardTarget.Hash != id {
				ans.Mutated = true
			}
		}
	}
	// runtime info
	rec2 := httptest.NewRecorder()
	svc.ServeHTTP(rec2, httptest.NewRequest("GET", "/api/v1/runtimeinfo", nil))
	var rb struct {
		Data struct {
			HeadSeries    int64
			ProcessSeries int64
		} `json:"data"`
	}
	_ = json.Unmarshal(rec2.Body.Bytes(), &rb)
	return ans, map[string]int64{"head": rb.Data.HeadSeries, "proc": rb.Data.ProcessSeries}
}
