package main

// kvh cycle: runs the real coordinator.Coordinator for exactly one coordination cycle per
// input vector (VerifRunOnce hook) against scripted shards (Shard.APIGet / APIPost are the
// harness-owned boundary) and records, per shard, the complete request log, the body of the
// targets POST and every ChangeScale argument.  The JSON shapes of input and outcome are those
// of spec/Rebalance.tla (in / Out).

import (
	"encoding/json"
	"flag"
	"fmt"
	"io"
	"log"
	"net/http"
	"net/http/httptest"
	"sort"
	"strings"
	"sync"
	"time"
	"tkestack.io/kvass/pkg/api"

	"github.com/prometheus/client_golang/prometheus"
	"github.com/prometheus/prometheus/model/labels"
	pscrape "github.com/prometheus/prometheus/scrape"
	"tkestack.io/kvass/pkg/coordinator"
	"tkestack.io/kvass/pkg/discovery"
	"tkestack.io/kvass/pkg/prom"
	"tkestack.io/kvass/pkg/shard"
	"tkestack.io/kvass/pkg/target"
)

func init() { commands["cycle"] = cmdCycle }

type cyOpts struct {
	MaxHead     int64 `json:"maxHead"`
	MaxProc     int64 `json:"maxProc"`
	MinShard    int32 `json:"minShard"`
	MaxShard    int32 `json:"maxShard"`
	MaxIdle     int   `json:"maxIdle"`
	NoAlleviate bool  `json:"noAlleviate"`
	Static      bool  `json:"static,omitempty"` // closed loop only: the shards are a fixed list (pkg/shard/static), scale requests change nothing
}

type cyEntry struct {
	T      uint64 `json:"t"`
	State  string `json:"state"`
	Health string `json:"health"`
	Times  uint64 `json:"times"`
	Series int64  `json:"series"`
	Total  int64  `json:"total"`
}

type cyShard struct {
	Mode     string    `json:"mode"`
	Report   []cyEntry `json:"report"`
	Head     int64     `json:"head"`
	Proc     int64     `json:"proc"`
	Idle     string    `json:"idle"`
	PostFail bool      `json:"postFail"`
}

type cyReplica struct {
	Shards    []cyShard `json:"shards"`
	FailScale int       `json:"failScale"` // the k-th ChangeScale call of the cycle fails (0: none)
	ListFail  bool      `json:"listFail"`
}

type cyInput struct {
	ID      string    `json:"id"`
	Opts    cyOpts    `json:"opts"`
	Active  []uint64  `json:"active"`
	Explore []cyEntry `json:"explore"`
	// single replica form
	Shards    []cyShard `json:"shards"`
	FailScale int       `json:"failScale"`
	// multi replica form (C19); when present the single replica fields are ignored
	Replicas []cyReplica `json:"replicas,omitempty"`
	// a second cycle of the same coordinator (same explorer objects) with other shard scripts (C19)
	Replicas2 []cyReplica `json:"replicas2,omitempty"`
	// the coordinator talks to the scripted shards over real HTTP (pkg/api client) instead of the injectable functions
	Wire bool `json:"wire,omitempty"`
}

type cyPostTarget struct {
	T      uint64 `json:"t"`
	State  string `json:"state"`
	Series int64  `json:"series"`
	Total  int64  `json:"total"`
}

type cyPost struct {
	Sent    bool           `json:"sent"`
	OK      bool           `json:"ok"`
	Targets []cyPostTarget `json:"targets"`
}

type cyOut struct {
	Reqs      [][]string `json:"reqs"`
	Posts     []cyPost   `json:"posts"`
	Scales    []int32    `json:"scales"`
	Panic     bool       `json:"panic"`
	PanicMsg  string     `json:"panicMsg,omitempty"`
	CfgBodyOK []bool     `json:"cfgBodyOK"`
	Listed    bool       `json:"listed"`
	// the published global scrape status after the cycle (single replica runs)
	Global []cyGlobal `json:"global"`
	// every extra-config POST carried the coordinator's extra config
	ExtraBodyOK bool `json:"extraBodyOK"`
}

type cyGlobal struct {
	T      uint64 `json:"t"`
	Health string `json:"health"`
	Series int64  `json:"series"`
	Total  int64  `json:"total"`
	Times  uint64 `json:"times"`
	State  string `json:"state"`
	Shards []int  `json:"shards"`
}

const (
	cyCoordHash  = "coordinator-hash"
	cyRaw        = "global:\n  scrape_interval: 15s\n# raw content of the coordinator\n"
	cyIdleUnit   = time.Hour
	cyStopReason = "maintenance window (scripted)"
)

// scripted shard
type cyShardRT struct {
	mu       sync.Mutex
	in       *cyShard
	reqs     []string
	post     cyPost
	cfgOK    bool
	rtCalls  int
	pushed   bool
	now      time.Time
	extraBad bool
	srv      *httptest.Server
}

// serve puts the scripted shard behind a real HTTP server.  A scripted failure of a request is a transport failure
// (the connection is closed without an answer) or, for every other one, an error answer of the sidecar's API.
func (s *cyShardRT) serve() *httptest.Server {
	nfail := (len(s.in.Report) + int(s.in.Head) + int(s.in.Proc)) % 3 // which kind of failure comes first differs from shard to shard
	lastKilled := ""
	fail := func(w http.ResponseWriter, err error) {
		nfail++
		key := ""
		if r, ok := w.(interface{ kvhKey() string }); ok {
			key = r.kvhKey()
		}
		if strings.HasPrefix(key, "GET ") && lastKilled == key {
			// net/http sends an idempotent request again when the connection broke before any answer: the same attempt, seen twice
			s.mu.Lock()
			if len(s.reqs) > 0 {
				s.reqs = s.reqs[:len(s.reqs)-1]
			}
			if strings.HasSuffix(key, "/runtimeinfo/") {
				s.rtCalls--
			}
			s.mu.Unlock()
			nfail--
		}
		if nfail%3 == 2 {
			// an error answer that is not the sidecar's own: a gateway or mesh in between reports the failure in its own JSON
			w.Header().Set("Content-Type", "application/json")
			w.WriteHeader(502)
			_, _ = w.Write([]byte(`{"code":502,"message":"upstream connect error or disconnect/reset before headers"}`))
			return
		}
		if nfail%3 == 1 {
			lastKilled = key
			if hj, ok := w.(*keyedWriter).ResponseWriter.(http.Hijacker); ok {
				if conn, _, e := hj.Hijack(); e == nil {
					_ = conn.Close()
					return
				}
			}
		}
		w.Header().Set("Content-Type", "application/json")
		w.WriteHeader(503)
		_ = json.NewEncoder(w).Encode(api.InternalErr(err, "scripted"))
	}
	ok := func(w http.ResponseWriter, v interface{}) {
		w.Header().Set("Content-Type", "application/json")
		_ = json.NewEncoder(w).Encode(api.Data(v))
	}
	srv := httptest.NewUnstartedServer(http.HandlerFunc(func(w0 http.ResponseWriter, r *http.Request) {
		path := r.URL.Path
		w := &keyedWriter{ResponseWriter: w0, key: r.Method + " " + path}
		if r.Method == "GET" {
			switch {
			case strings.HasSuffix(path, "/targets/status/"):
				m := map[uint64]*target.ScrapeStatus{}
				if err := s.get(path, &m); err != nil {
					fail(w, err)
					return
				}
				ok(w, m)
			default:
				var rt *shard.RuntimeInfo
				if err := s.get(path, &rt); err != nil {
					fail(w, err)
					return
				}
				ok(w, rt)
			}
			return
		}
		body, _ := io.ReadAll(r.Body)
		var req interface{}
		switch {
		case strings.HasSuffix(path, "/status/config"):
			req = &shard.UpdateConfigRequest{}
		case strings.HasSuffix(path, "/extra_config"):
			req = &prom.ExtraConfig{}
		default:
			req = &shard.UpdateTargetsRequest{}
		}
		_ = json.Unmarshal(body, req)
		if err := s.postReq(strings.TrimSuffix(path, "/")+map[bool]string{true: "/", false: ""}[strings.HasSuffix(path, "/targets/")], req, nil); err != nil {
			fail(w, err)
			return
		}
		ok(w, nil)
	}))
	srv.Config.ErrorLog = log.New(io.Discard, "", 0)
	srv.Start()
	return srv
}

func (s *cyShardRT) get(url string, ret interface{}) error {
	s.mu.Lock()
	defer s.mu.Unlock()
	switch {
	case strings.HasSuffix(url, "/api/v1/shard/targets/status/"):
		s.reqs = append(s.reqs, "status")
		if s.in.Mode == "statusfail" {
			return fmt.Errorf("scripted: status request failed")
		}
		m := map[uint64]*target.ScrapeStatus{}
		for _, e := range s.in.Report {
			m[e.T] = &target.ScrapeStatus{
				Health:      pscrape.TargetHealth(e.Health),
				Series:      e.Series,
				TotalSeries: e.Total,
				TargetState: e.State,
				ScrapeTimes: e.Times,
			}
		}
		return copyJSON(ret, m)
	case strings.HasSuffix(url, "/api/v1/shard/runtimeinfo/"):
		s.reqs = append(s.reqs, "rt")
		s.rtCalls++
		if s.in.Mode == "rtfail" || (s.in.Mode == "rt2fail" && s.rtCalls >= 2) {
			return fmt.Errorf("scripted: runtimeinfo request failed")
		}
		hash := cyCoordHash
		switch s.in.Mode {
		case "pushfail", "rt2fail", "stale":
			hash = "another-hash"
		case "pushok":
			if !s.pushed {
				hash = "another-hash"
			}
		}
		rt := &shard.RuntimeInfo{HeadSeries: s.in.Head, ProcessSeries: s.in.Proc, ConfigHash: hash}
		switch s.in.Idle {
		case "fresh":
			t := s.now
			rt.IdleStartAt = &t
		case "expired":
			t := s.now.Add(-2 * cyIdleUnit)
			rt.IdleStartAt = &t
		}
		return copyJSON(ret, rt)
	}
	s.reqs = append(s.reqs, "get:"+url)
	return fmt.Errorf("scripted: unknown url %s", url)
}

func (s *cyShardRT) postReq(url string, req interface{}, ret interface{}) error {
	s.mu.Lock()
	defer s.mu.Unlock()
	switch {
	case strings.HasSuffix(url, "/api/v1/status/config"):
		s.reqs = append(s.reqs, "cfg")
		var r shard.UpdateConfigRequest
		if err := copyJSON(&r, req); err != nil || r.RawContent != cyRaw {
			s.cfgOK = false
		}
		if s.in.Mode == "pushfail" {
			return fmt.Errorf("scripted: config push rejected")
		}
		s.pushed = true
		return nil
	case strings.HasSuffix(url, "/api/v1/status/extra_config"):
		s.reqs = append(s.reqs, "extra")
		var e prom.ExtraConfig
		if err := copyJSON(&e, req); err != nil || e.StopScrapeReason != cyStopReason {
			s.extraBad = true
		}
		return nil
	case strings.HasSuffix(url, "/api/v1/shard/targets/"):
		s.reqs = append(s.reqs, "targets")
		var r struct {
			Targets map[string][]*target.Target
		}
		if err := copyJSON(&r, req); err != nil {
			return err
		}
		p := cyPost{Sent: true, OK: !s.in.PostFail, Targets: []cyPostTarget{}}
		for _, ts := range r.Targets {
			for _, t := range ts {
				p.Targets = append(p.Targets, cyPostTarget{T: t.Hash, State: t.TargetState, Series: t.Series, Total: t.TotalSeries})
			}
		}
		s.post = p
		if s.in.PostFail {
			return fmt.Errorf("scripted: targets update failed")
		}
		return nil
	}
	s.reqs = append(s.reqs, "post:"+url)
	return fmt.Errorf("scripted: unknown url %s", url)
}

type cyManager struct {
	wire   bool
	in     *cyReplica
	idx    int
	shards []*cyShardRT
	scales []int32
	listed bool
	mu     sync.Mutex
}

func (m *cyManager) Shards() ([]*shard.Shard, error) {
	if m.in.ListFail {
		return nil, fmt.Errorf("scripted: list shards failed")
	}
	m.listed = true
	ret := make([]*shard.Shard, 0, len(m.shards))
	for i, s := range m.shards {
		if m.wire {
			// over the wire: the shard client's own api.Get / api.Post against an HTTP server that answers as scripted
			if s.srv == nil {
				s.srv = s.serve()
			}
			ret = append(ret, shard.NewShard(fmt.Sprintf("r%d-shard-%d", m.idx, i), s.srv.URL, s.in.Mode != "notready", quietLog()))
			continue
		}
		sd := shard.NewShard(fmt.Sprintf("r%d-shard-%d", m.idx, i), fmt.Sprintf("http://r%d-shard-%d", m.idx, i),
			s.in.Mode != "notready", quietLog())
		sd.APIGet = s.get
		sd.APIPost = s.postReq
		ret = append(ret, sd)
	}
	return ret, nil
}

func (m *cyManager) ChangeScale(n int32) error {
	m.mu.Lock()
	defer m.mu.Unlock()
	m.scales = append(m.scales, n)
	if m.in.FailScale == len(m.scales) {
		return fmt.Errorf("scripted: scale request %d failed", len(m.scales))
	}
	return nil
}

type cyRM struct{ ms []*cyManager }

func (r *cyRM) Replicas() ([]shard.Manager, error) {
	ret := make([]shard.Manager, 0, len(r.ms))
	for _, m := range r.ms {
		ret = append(ret, m)
	}
	return ret, nil
}

func cmdCycle(args []string) error {
	fs := flag.NewFlagSet("cycle", flag.ExitOnError)
	in := fs.String("in", "", "input vectors (ndjson)")
	out := fs.String("out", "", "observations (ndjson)")
	reps := fs.Int("reps", 3, "repetitions per vector (Go map order and random picks vary)")
	workers := fs.Int("workers", 8, "parallel vectors")
	_ = fs.Parse(args)

	w, err := newNDWriter(*out)
	if err != nil {
		return err
	}
	defer w.Close()

	type job struct{ line []byte }
	jobs := make(chan job, 256)
	var wg sync.WaitGroup
	var firstErr error
	var emu sync.Mutex
	for i := 0; i < *workers; i++ {
		wg.Add(1)
		go func() {
			defer wg.Done()
			for j := range jobs {
				var ci cyInput
				if err := json.Unmarshal(j.line, &ci); err != nil {
					emu.Lock()
					firstErr = err
					emu.Unlock()
					continue
				}
				for r := 0; r < *reps; r++ {
					outs := runCycle(&ci)
					rec := map[string]interface{}{"id": ci.ID, "rep": r}
					if len(ci.Replicas) == 0 {
						rec["out"] = outs[0]
					} else {
						rec["outs"] = outs
					}
					_ = w.Write(rec)
				}
			}
		}()
	}
	err = readNDJSON(*in, func(line []byte) error {
		cp := make([]byte, len(line))
		copy(cp, line)
		jobs <- job{cp}
		return nil
	})
	close(jobs)
	wg.Wait()
	if err != nil {
		return err
	}
	return firstErr
}

func buildManagers(reps []cyReplica, now time.Time, wire bool) []*cyManager {
	var ms []*cyManager
	for ri := range reps {
		m := &cyManager{in: &reps[ri], idx: ri, wire: wire}
		for si := range reps[ri].Shards {
			s := &reps[ri].Shards[si]
			m.shards = append(m.shards, &cyShardRT{in: s, cfgOK: true, now: now, post: cyPost{Targets: []cyPostTarget{}}})
		}
		ms = append(ms, m)
	}
	return ms
}

func collectOuts(ms []*cyManager, panicked bool, msg string) []cyOut {
	outs := make([]cyOut, len(ms))
	for ri, m := range ms {
		o := cyOut{Panic: panicked, PanicMsg: msg, Scales: append([]int32{}, m.scales...), Listed: m.listed, ExtraBodyOK: true, Global: []cyGlobal{}}
		for _, s := range m.shards {
			if s.extraBad {
				o.ExtraBodyOK = false
			}
			o.Reqs = append(o.Reqs, append([]string{}, s.reqs...))
			o.Posts = append(o.Posts, s.post)
			o.CfgBodyOK = append(o.CfgBodyOK, s.cfgOK)
		}
		if o.Reqs == nil {
			o.Reqs, o.Posts, o.CfgBodyOK = [][]string{}, []cyPost{}, []bool{}
		}
		outs[ri] = o
	}
	return outs
}

func runCycle(ci *cyInput) []cyOut {
	reps := ci.Replicas
	if len(reps) == 0 {
		reps = []cyReplica{{Shards: ci.Shards, FailScale: ci.FailScale}}
	}
	now := time.Now()
	rm := &cyRM{}
	rm.ms = buildManagers(reps, now, ci.Wire)
	defer func() {
		for _, m := range rm.ms {
			for _, s := range m.shards {
				if s.srv != nil {
					s.srv.Close()
				}
			}
		}
	}()

	active := map[uint64]*discovery.SDTargets{}
	for _, t := range ci.Active {
		active[t] = &discovery.SDTargets{
			Job: "job",
			ShardTarget: &target.Target{
				Hash:   t,
				Labels: labels.Labels{{Name: "__address__", Value: fmt.Sprintf("10.0.0.%d:9100", t)}},
			},
		}
	}
	explore := map[uint64]*target.ScrapeStatus{}
	for _, e := range ci.Explore {
		explore[e.T] = &target.ScrapeStatus{
			Health:      pscrape.TargetHealth(e.Health),
			Series:      e.Series,
			TotalSeries: e.Total,
			TargetState: e.State,
			ScrapeTimes: e.Times,
		}
	}
	// the coordinator's configuration comes from a real ConfigManager: a good load, the administrator's stop reason, and
	// afterwards a reload of a broken file that is rejected - the accepted configuration stays what it was.  The hash the
	// scripted shards answer with stays the scripted one (what they compare is equality, not the value).
	cm := prom.NewConfigManager()
	if err := cm.ReloadFromRaw([]byte(cyRaw)); err != nil {
		panic(err)
	}
	_ = cm.UpdateExtraConfig(prom.ExtraConfig{StopScrapeReason: cyStopReason})
	if err := cm.ReloadFromRaw([]byte("scrape_configs:\n- job_name: [broken\n")); err == nil {
		panic("the broken configuration was accepted")
	}
	cur := cm.ConfigInfo()
	cfg := &prom.ConfigInfo{RawContent: cur.RawContent, Config: cur.Config, ConfigHash: cyCoordHash, ExtraConfig: cur.ExtraConfig}

	c := coordinator.NewCoordinator(&coordinator.Option{
		MaxHeadSeries:    ci.Opts.MaxHead,
		MaxProcessSeries: ci.Opts.MaxProc,
		MaxShard:         ci.Opts.MaxShard,
		MinShard:         ci.Opts.MinShard,
		MaxIdleTime:      time.Duration(ci.Opts.MaxIdle) * cyIdleUnit,
		Period:           time.Second,
		DisableAlleviate: ci.Opts.NoAlleviate,
	}, rm,
		func() *prom.ConfigInfo { return cfg },
		func(h uint64) *target.ScrapeStatus { return explore[h] },
		func() map[uint64]*discovery.SDTargets {
			// a fresh map per call, as ActiveTargetsByHash returns
			m := make(map[uint64]*discovery.SDTargets, len(active))
			for k, v := range active {
				m[k] = v
			}
			return m
		},
		prometheus.NewRegistry(), quietLog())

	panicked, msg := false, ""
	func() {
		defer func() {
			if r := recover(); r != nil {
				panicked, msg = true, fmt.Sprint(r)
			}
		}()
		_ = c.VerifRunOnce()
	}()

	outs := collectOuts(rm.ms, panicked, msg)
	if len(rm.ms) == 1 {
		g := []cyGlobal{}
		for h, st := range c.LastGlobalScrapeStatus() {
			x := cyGlobal{T: h, Health: string(st.Health), Series: st.Series, Total: st.TotalSeries, Times: st.ScrapeTimes, State: st.TargetState, Shards: []int{}}
			for _, id := range st.Shards {
				var r, i int
				if _, err := fmt.Sscanf(id, "r%d-shard-%d", &r, &i); err == nil {
					x.Shards = append(x.Shards, i+1)
				}
			}
			sort.Ints(x.Shards)
			g = append(g, x)
		}
		sort.Slice(g, func(a, b int) bool { return g[a].T < g[b].T })
		outs[0].Global = g
	}
	if len(ci.Replicas2) > 0 {
		// a second cycle of the same coordinator: same explorer objects, new shard scripts
		rm.ms = buildManagers(ci.Replicas2, now, false)
		panicked, msg = false, ""
		func() {
			defer func() {
				if r := recover(); r != nil {
					panicked, msg = true, fmt.Sprint(r)
				}
			}()
			_ = c.VerifRunOnce()
		}()
		outs = append(outs, collectOuts(rm.ms, panicked, msg)...)
	}
	return outs
}

type keyedWriter struct {
	http.ResponseWriter
	key string
}

func (k *keyedWriter) kvhKey() string { return k.key }
