package main

// kvh discrace: a configuration reload (Explore.ApplyConfig) and the consumption of a discovery update
// (Explore.UpdateTargets) at the same time - they run on different goroutines in cmd/kvass/coordinator.go.  Both are
// atomic actions of spec/Discovery.tla (Reload, Consume); with a reload that keeps every job both orders end in the
// same table: exactly the targets of the update.  Large tables keep the two calls busy long enough to overlap.

import (
	"flag"
	"fmt"
	"sync"

	"github.com/prometheus/client_golang/prometheus"
	"tkestack.io/kvass/pkg/discovery"
	"tkestack.io/kvass/pkg/explore"
	"tkestack.io/kvass/pkg/prom"
	"tkestack.io/kvass/pkg/scrape"
)

func init() { commands["discrace"] = cmdDiscRace }

func cmdDiscRace(args []string) error {
	fs := flag.NewFlagSet("discrace", flag.ExitOnError)
	out := fs.String("out", "", "observations")
	rounds := fs.Int("rounds", 200, "rounds")
	size := fs.Int("size", 4000, "targets per update")
	_ = fs.Parse(args)
	wr, err := newNDWriter(*out)
	if err != nil {
		return err
	}
	defer wr.Close()
	lg := quietLog()
	sm := scrape.New(false, lg)
	exp := explore.New(sm, prometheus.NewRegistry(), lg)
	cfgm := prom.NewConfigManager()
	cfgm.AddReloadCallbacks(sm.ApplyConfig)
	if err := cfgm.ReloadFromRaw([]byte("global:\n  scrape_interval: 15s\nscrape_configs:\n- job_name: ja\n- job_name: jb\n")); err != nil {
		return err
	}
	mk := func(base uint64) map[string][]*discovery.SDTargets {
		m := map[string][]*discovery.SDTargets{"ja": {}, "jb": {}}
		for i := 0; i < *size; i++ {
			j := "ja"
			if i%2 == 1 {
				j = "jb"
			}
			m[j] = append(m[j], caTarget(j, base+uint64(i), false))
		}
		return m
	}
	a, b := mk(1_000_000), mk(2_000_000)
	lost, stale := 0, 0
	for r := 0; r < *rounds; r++ {
		from, to, fromBase, toBase := a, b, uint64(1_000_000), uint64(2_000_000)
		if r%2 == 1 {
			from, to, fromBase, toBase = b, a, 2_000_000, 1_000_000
		}
		exp.UpdateTargets(from)
		var wg sync.WaitGroup
		wg.Add(2)
		go func() { defer wg.Done(); _ = exp.ApplyConfig(cfgm.ConfigInfo()) }()
		go func() { defer wg.Done(); exp.UpdateTargets(to) }()
		wg.Wait()
		// a few entries of each side are looked at (a lookup asks for a probe: not more of them than the queue holds)
		for k := 0; k < 1; k++ {
			off := uint64((r*7 + k*1301) % *size)
			if exp.Get(toBase+off) == nil {
				lost++
			}
			if exp.Get(fromBase+off) != nil {
				stale++
			}
		}
	}
	return wr.Write(map[string]interface{}{"rounds": *rounds, "size": *size, "lost": lost, "stale": stale,
		"what": fmt.Sprintf("%d rounds: table = update A; then a reload that keeps every job and update B at the same time; the table has to be B", *rounds)})
}
