package main

// kvh explore-flood: more first lookups in one coordinator cycle than the explorer's queue holds
// (10000), while the workers are busy with slow probes - the situation spec/ExploreLock.tla is
// about.  All targets are asked for one after the other (as the coordinator does for the targets of
// a cycle) while no target answers; then the targets answer at once.  Every lookup has to return
// and every target has to be probed; the run ends when that is the case or when nothing at all has
// moved for several seconds although work is left (a deadlock, not slowness).

import (
	"context"
	"flag"
	"fmt"
	"net/http"
	"net/http/httptest"
	"net/url"
	"sync/atomic"
	"time"

	"github.com/prometheus/client_golang/prometheus"
	"github.com/prometheus/common/model"
	"github.com/prometheus/prometheus/model/labels"
	"tkestack.io/kvass/pkg/discovery"
	"tkestack.io/kvass/pkg/explore"
	"tkestack.io/kvass/pkg/prom"
	"tkestack.io/kvass/pkg/scrape"
	"tkestack.io/kvass/pkg/target"
)

func init() { commands["explore-flood"] = cmdExploreFlood }

func cmdExploreFlood(args []string) error {
	fs := flag.NewFlagSet("explore-flood", flag.ExitOnError)
	out := fs.String("out", "", "observation (ndjson)")
	extra := fs.Int("extra", 40, "lookups beyond queue capacity + workers")
	workers := fs.Int("workers", 2, "explorer workers")
	_ = fs.Parse(args)
	wr, err := newNDWriter(*out)
	if err != nil {
		return err
	}
	defer wr.Close()
	const queueCap = 10000
	n := queueCap + *workers + *extra
	gate := make(chan struct{})
	var probes, gets int64
	srv := httptest.NewServer(http.HandlerFunc(func(rw http.ResponseWriter, r *http.Request) {
		select {
		case <-gate:
		case <-r.Context().Done():
			return
		}
		atomic.AddInt64(&probes, 1)
		rw.Header().Set("Content-Type", "text/plain; version=0.0.4")
		_, _ = rw.Write([]byte("m 1\n"))
	}))
	defer srv.Close()
	lg := quietLog()
	sm := scrape.New(false, lg)
	cfgm := prom.NewConfigManager()
	cfgm.AddReloadCallbacks(sm.ApplyConfig)
	if err := cfgm.ReloadFromRaw([]byte(exCfgYAML())); err != nil {
		return err
	}
	exp := explore.New(sm, prometheus.NewRegistry(), lg)
	ctx, cancel := context.WithCancel(context.Background())
	defer cancel()
	go func() { _ = exp.Run(ctx, *workers) }()
	u, _ := url.Parse(srv.URL)
	ts := make([]*discovery.SDTargets, 0, n)
	for t := 1; t <= n; t++ {
		ts = append(ts, &discovery.SDTargets{Job: "j1", ShardTarget: &target.Target{Hash: uint64(100000 + t), Labels: labels.Labels{
			{Name: model.AddressLabel, Value: u.Host}, {Name: model.MetricsPathLabel, Value: fmt.Sprintf("/t%d/metrics", t)},
			{Name: model.SchemeLabel, Value: "http"}, {Name: model.JobLabel, Value: "j1"}}}})
	}
	exp.UpdateTargets(map[string][]*discovery.SDTargets{"j1": ts})
	go func() {
		for t := 1; t <= n; t++ {
			exp.Get(uint64(100000 + t))
			atomic.AddInt64(&gets, 1)
		}
	}()
	// until the lookups stand still: queue full, workers waiting for their targets
	quiet := func(d time.Duration, limit time.Duration) bool {
		last, since, start := int64(-1), time.Now(), time.Now()
		for time.Since(start) < limit {
			cur := atomic.LoadInt64(&gets) + atomic.LoadInt64(&probes)
			if cur != last {
				last, since = cur, time.Now()
			} else if time.Since(since) >= d {
				return true
			}
			if atomic.LoadInt64(&gets) == int64(n) && atomic.LoadInt64(&probes) == int64(n) {
				return false
			}
			time.Sleep(5 * time.Millisecond)
		}
		return false
	}
	quiet(500*time.Millisecond, 20*time.Second)
	blockedAt := atomic.LoadInt64(&gets)
	close(gate)
	start := time.Now()
	stalled := quiet(4*time.Second, 120*time.Second)
	g, p := atomic.LoadInt64(&gets), atomic.LoadInt64(&probes)
	return wr.Write(map[string]interface{}{"n": n, "workers": *workers, "queueCap": queueCap, "lookupsBeforeTargetsAnswered": blockedAt,
		"lookupsReturned": g, "probed": p, "stalled": stalled && (g < int64(n) || p < int64(n)), "ms": time.Since(start).Milliseconds()})
}
