package main

// kvh inject: for every configuration shape enumerated by TLC from spec/MCInject.tla, renders a real
// Prometheus configuration, runs it through the real prom.ConfigManager and sidecar.Injector with an
// assignment (jobs without targets, targets of jobs that do not exist), loads the generated file back
// with Prometheus' config.Load and compares it field by field with the original.

import (
	"encoding/json"
	"flag"
	"fmt"
	"net/url"
	"os"
	"path/filepath"
	"reflect"
	"sort"
	"strings"

	"github.com/go-kit/log"
	"github.com/prometheus/client_golang/prometheus"
	config_util "github.com/prometheus/common/config"
	"github.com/prometheus/prometheus/config"
	pdiscovery "github.com/prometheus/prometheus/discovery"
	"github.com/prometheus/prometheus/model/labels"
	"tkestack.io/kvass/pkg/prom"
	"tkestack.io/kvass/pkg/sidecar"
	"tkestack.io/kvass/pkg/target"
)

func init() { commands["inject"] = cmdInject }

type ijCase struct {
	Am    string   `json:"am"`
	Rules bool     `json:"rules"`
	Jobs  []string `json:"jobs"`
	Rw    []string `json:"rw"`
	Rr    []string `json:"rr"`
}
type ijSlot struct {
	Sec string `json:"sec"`
	Key string `json:"key"`
	Val string `json:"val"`
}
type ijObs struct {
	Loads          bool     `json:"loads"`
	Err            string   `json:"err,omitempty"`
	JobsSameOrder  bool     `json:"jobsSameOrder"`
	JobProblems    []string `json:"jobProblems"`    // per job deviations from the statement
	JobSecretLeak  []string `json:"jobSecretLeak"`  // scrape job secrets found in the file
	SectionsDiffer []string `json:"sectionsDiffer"` // non-scrape sections not preserved (secrets included)
	Slots          []ijSlot `json:"slots"`          // secret slots of the loaded generated file, in file order
	SelfMonitor    bool     `json:"selfMonitor"`
}

func authYAML(indent, kind, tag string) string {
	switch kind {
	case "basic":
		return fmt.Sprintf("%sbasic_auth:\n%s  username: user-%s\n%s  password: %s-pw\n", indent, indent, tag, indent, tag)
	case "bearer":
		return fmt.Sprintf("%sbearer_token: %s-tok\n", indent, tag)
	case "authorization":
		return fmt.Sprintf("%sauthorization:\n%s  type: Bearer\n%s  credentials: %s-cred\n", indent, indent, indent, tag)
	case "oauth2":
		return fmt.Sprintf("%soauth2:\n%s  client_id: cid-%s\n%s  client_secret: %s-oauth\n%s  token_url: http://auth.example/token\n", indent, indent, tag, indent, tag, indent)
	}
	return ""
}

func ijYAML(c *ijCase) string {
	var b strings.Builder
	b.WriteString("global:\n  scrape_interval: 15s\n  scrape_timeout: 10s\n  evaluation_interval: 30s\n  external_labels:\n    cluster: c1\n")
	if c.Rules {
		b.WriteString("rule_files:\n- /etc/prometheus/rules/*.yml\n")
	}
	if c.Am == "empty" {
		b.WriteString("alerting:\n  alertmanagers: []\n")
	} else {
		b.WriteString("alerting:\n  alert_relabel_configs:\n  - source_labels: [severity]\n    regex: info\n    action: drop\n  alertmanagers:\n  - scheme: https\n    path_prefix: /am\n    timeout: 7s\n")
		b.WriteString(authYAML("    ", c.Am, "am"))
		b.WriteString("    static_configs:\n    - targets: [\"am1:9093\"]\n")
	}
	b.WriteString("scrape_configs:\n")
	for i, a := range c.Jobs {
		tag := fmt.Sprintf("job%d", i+1)
		fmt.Fprintf(&b, "- job_name: %s\n  honor_labels: %v\n  honor_timestamps: %v\n  scrape_interval: %ds\n  scrape_timeout: %ds\n  metrics_path: /m%d\n  scheme: %s\n  sample_limit: %d\n  target_limit: %d\n  label_limit: %d\n  label_name_length_limit: 50\n  label_value_length_limit: 90\n  body_size_limit: 10MB\n",
			tag, i%2 == 0, i%2 == 1, 20+i, 8+i, i, []string{"https", "http"}[(i+len(c.Rw))%2], 1000+i, 50+i, 30+i)
		fmt.Fprintf(&b, "  params:\n    module: [a%d, b]\n", i)
		b.WriteString(authYAML("  ", a, tag))
		b.WriteString("  tls_config:\n    insecure_skip_verify: true\n    server_name: node.example\n")
		if (i+len(c.Rr))%2 == 1 {
			b.WriteString("  proxy_url: http://egress-proxy.example:3128\n") // a job that goes through a proxy of its own
		}
		fmt.Fprintf(&b, "  relabel_configs:\n  - source_labels: [__address__]\n    regex: (.+)\n    target_label: addr%d\n", i)
		fmt.Fprintf(&b, "  metric_relabel_configs:\n  - source_labels: [__name__]\n    regex: go_%d.*\n    action: drop\n", i)
		switch i % 3 {
		case 0:
			b.WriteString("  static_configs:\n  - targets: [\"n1:9100\", \"n2:9100\"]\n    labels:\n      rack: r1\n")
		case 1:
			b.WriteString("  file_sd_configs:\n  - files: [\"/etc/sd/*.json\"]\n")
		case 2:
			b.WriteString("  kubernetes_sd_configs:\n  - role: pod\n")
		}
	}
	if len(c.Rw) > 0 {
		b.WriteString("remote_write:\n")
		for i, a := range c.Rw {
			ui := ""
			if a == "userinfo" {
				ui = fmt.Sprintf("writer:rw%d-ui@", i+1)
			}
			fmt.Fprintf(&b, "- url: http://%srw%d.example/api/v1/write\n  remote_timeout: %ds\n  name: rw%d\n", ui, i+1, 25+i, i+1)
			b.WriteString(authYAML("  ", a, fmt.Sprintf("rw%d", i+1)))
			b.WriteString("  write_relabel_configs:\n  - source_labels: [__name__]\n    regex: expensive_.*\n    action: drop\n")
		}
	}
	if len(c.Rr) > 0 {
		b.WriteString("remote_read:\n")
		for i, a := range c.Rr {
			ui := ""
			if a == "userinfo" {
				ui = fmt.Sprintf("reader:rr%d-ui@", i+1)
			}
			fmt.Fprintf(&b, "- url: http://%srr%d.example/api/v1/read\n  remote_timeout: %ds\n  read_recent: true\n", ui, i+1, 40+i)
			b.WriteString(authYAML("  ", a, fmt.Sprintf("rr%d", i+1)))
		}
	}
	return b.String()
}

func slotsOfHTTP(sec string, h config_util.HTTPClientConfig) []ijSlot {
	var out []ijSlot
	if h.BasicAuth != nil && h.BasicAuth.Password != "" {
		out = append(out, ijSlot{sec, "password", string(h.BasicAuth.Password)})
	}
	if h.BearerToken != "" {
		out = append(out, ijSlot{sec, "bearer_token", string(h.BearerToken)})
	}
	if h.Authorization != nil && h.Authorization.Credentials != "" {
		out = append(out, ijSlot{sec, "credentials", string(h.Authorization.Credentials)})
	}
	if h.OAuth2 != nil && h.OAuth2.ClientSecret != "" {
		out = append(out, ijSlot{sec, "client_secret", string(h.OAuth2.ClientSecret)})
	}
	return out
}

func cmdInject(args []string) error {
	fs := flag.NewFlagSet("inject", flag.ExitOnError)
	in := fs.String("in", "", "cases")
	out := fs.String("out", "", "observations")
	_ = fs.Parse(args)
	wr, err := newNDWriter(*out)
	if err != nil {
		return err
	}
	defer wr.Close()
	dir, err := os.MkdirTemp("", "kvh-inject-")
	if err != nil {
		return err
	}
	defer cleanupDir(dir)
	n := 0
	return readNDJSON(*in, func(line []byte) error {
		var rec struct {
			N    int    `json:"n"`
			Case ijCase `json:"case"`
		}
		if err := json.Unmarshal(line, &rec); err != nil {
			return err
		}
		n++
		o := runInjectCase(filepath.Join(dir, fmt.Sprintf("gen-%d.yaml", n)), &rec.Case, n)
		_ = os.Remove(filepath.Join(dir, fmt.Sprintf("gen-%d.yaml", n)))
		return wr.Write(map[string]interface{}{"n": rec.N, "obs": o})
	})
}

func runInjectCase(file string, c *ijCase, n int) ijObs {
	o := ijObs{JobProblems: []string{}, JobSecretLeak: []string{}, SectionsDiffer: []string{}, Slots: []ijSlot{}}
	yaml := ijYAML(c)
	orig, err := config.Load(yaml, false, log.NewNopLogger())
	if err != nil {
		o.Err = "original does not load: " + err.Error()
		return o
	}
	selfMon := n%3 == 0
	o.SelfMonitor = selfMon
	cm := prom.NewConfigManager()
	inj := sidecar.NewInjector(file, sidecar.InjectConfigOptions{ProxyURL: "http://127.0.0.1:8008", PrometheusURL: "http://127.0.0.1:9090", ShardMonitorEnable: selfMon},
		prometheus.NewRegistry(), quietLog())
	cm.AddReloadCallbacks(inj.ApplyConfig)
	// a second target at the address, scheme and path of the first one: another module of a probe-style exporter
	sameEndpoint := mkTarget(projAssign{Job: "job1", H: 11})
	sameEndpoint.Hash = 15
	sameEndpoint.Labels = append(sameEndpoint.Labels, labels.Label{Name: "__param_module", Value: "other"}, labels.Label{Name: "module", Value: "other"})
	// assignment: job1 gets two targets, the second job (if any) none, plus targets of a job that does not exist
	assign := map[string][]*target.Target{
		"job1":      {mkTarget(projAssign{Job: "job1", H: 11, Series: 5, Total: 9}), mkTarget(projAssign{Job: "job1", H: 12, State: "in_transfer"}), sameEndpoint},
		"gone-job":  {mkTarget(projAssign{Job: "gone-job", H: 13})},
		"empty-job": {},
	}
	if n%2 == 0 {
		if err := inj.UpdateTargets(assign); err != nil {
			o.Err = "update targets: " + err.Error()
		}
		if err := cm.ReloadFromRaw([]byte(yaml)); err != nil {
			o.Err = "reload: " + err.Error()
			return o
		}
	} else {
		if err := cm.ReloadFromRaw([]byte(yaml)); err != nil {
			o.Err = "reload: " + err.Error()
			return o
		}
		if err := inj.UpdateTargets(assign); err != nil {
			o.Err = "update targets: " + err.Error()
		}
	}
	raw, err := os.ReadFile(file)
	if err != nil {
		o.Err = "generated file: " + err.Error()
		return o
	}
	gen, err := config.Load(string(raw), false, log.NewNopLogger())
	if err != nil {
		o.Err = "generated does not load: " + err.Error()
		return o
	}
	o.Loads = true
	// jobs, order, optional self monitor
	gj := gen.ScrapeConfigs
	if selfMon {
		if len(gj) == 0 || gj[len(gj)-1].JobName != "prometheus_shards" {
			o.JobProblems = append(o.JobProblems, "self-monitor job missing or not last")
		} else {
			gj = gj[:len(gj)-1]
		}
	}
	o.JobsSameOrder = len(gj) == len(orig.ScrapeConfigs)
	for i := range gj {
		if i < len(orig.ScrapeConfigs) && gj[i].JobName != orig.ScrapeConfigs[i].JobName {
			o.JobsSameOrder = false
		}
	}
	if o.JobsSameOrder {
		for i, g := range gj {
			oj := orig.ScrapeConfigs[i]
			bad := func(what string) { o.JobProblems = append(o.JobProblems, oj.JobName+": "+what) }
			// discovery: exactly the assigned targets as static entries
			var addrs []string
			if len(g.ServiceDiscoveryConfigs) > 1 {
				bad("more than one discovery config")
			}
			for _, sdc := range g.ServiceDiscoveryConfigs {
				st, ok := sdc.(pdiscovery.StaticConfig)
				if !ok {
					bad("non-static discovery left")
					continue
				}
				for _, grp := range st {
					for _, t := range grp.Targets {
						addrs = append(addrs, string(t["__address__"]))
					}
				}
			}
			sort.Strings(addrs)
			want := []string{}
			for _, t := range assign[oj.JobName] {
				want = append(want, t.Address())
			}
			sort.Strings(want)
			if strings.Join(addrs, ",") != strings.Join(want, ",") {
				bad(fmt.Sprintf("targets %v, assigned %v", addrs, want))
			}
			if g.Scheme != "http" {
				bad("scheme " + g.Scheme)
			}
			if g.HTTPClientConfig.ProxyURL.URL == nil || g.HTTPClientConfig.ProxyURL.String() != "http://127.0.0.1:8008" {
				bad("proxy url")
			}
			if g.HTTPClientConfig.BasicAuth != nil {
				bad("basic auth left")
			}
			if !reflect.DeepEqual(g.HTTPClientConfig.TLSConfig, config_util.TLSConfig{}) {
				bad("tls settings left")
			}
			// ingestion-relevant settings
			if g.ScrapeInterval != oj.ScrapeInterval {
				bad("scrape_interval")
			}
			if g.ScrapeTimeout != oj.ScrapeTimeout {
				bad("scrape_timeout")
			}
			if g.MetricsPath != oj.MetricsPath {
				bad("metrics_path")
			}
			if !reflect.DeepEqual(g.Params, oj.Params) {
				bad("params")
			}
			if g.HonorLabels != oj.HonorLabels || g.HonorTimestamps != oj.HonorTimestamps {
				bad("honor flags")
			}
			if g.SampleLimit != oj.SampleLimit || g.TargetLimit != oj.TargetLimit || g.LabelLimit != oj.LabelLimit ||
				g.LabelNameLengthLimit != oj.LabelNameLengthLimit || g.LabelValueLengthLimit != oj.LabelValueLengthLimit || g.BodySizeLimit != oj.BodySizeLimit {
				bad("limits")
			}
			gm, _ := json.Marshal(g.MetricRelabelConfigs)
			om, _ := json.Marshal(oj.MetricRelabelConfigs)
			if string(gm) != string(om) {
				bad("metric_relabel_configs")
			}
			o.Slots = append(o.Slots, slotsOfHTTP("job", g.HTTPClientConfig)...)
		}
	}
	// no secret value of a scrape job in the file
	for i := range c.Jobs {
		for _, suf := range []string{"-pw", "-tok", "-cred", "-oauth"} {
			s := fmt.Sprintf("job%d%s", i+1, suf)
			if strings.Contains(string(raw), s) {
				o.JobSecretLeak = append(o.JobSecretLeak, s)
			}
		}
	}
	// non-scrape sections, secrets included
	ge, oe := gen.GlobalConfig, orig.GlobalConfig
	if !reflect.DeepEqual(ge, oe) {
		o.SectionsDiffer = append(o.SectionsDiffer, "global")
	}
	if !reflect.DeepEqual(gen.RuleFiles, orig.RuleFiles) {
		o.SectionsDiffer = append(o.SectionsDiffer, "rule_files")
	}
	if !sameRemote(gen.AlertingConfig, orig.AlertingConfig) {
		o.SectionsDiffer = append(o.SectionsDiffer, "alerting")
	}
	if !sameRemote(gen.RemoteWriteConfigs, orig.RemoteWriteConfigs) {
		o.SectionsDiffer = append(o.SectionsDiffer, "remote_write")
	}
	if !sameRemote(gen.RemoteReadConfigs, orig.RemoteReadConfigs) {
		o.SectionsDiffer = append(o.SectionsDiffer, "remote_read")
	}
	// "for every accepted configuration": a later reload that changes only the external labels (which the
	// configuration hash leaves out on purpose), then a new assignment: the global section must follow
	yaml2 := strings.Replace(yaml, "cluster: c1", "cluster: c2", 1)
	if orig2, err := config.Load(yaml2, false, log.NewNopLogger()); err == nil {
		check := func(stage string) {
			raw2, err := os.ReadFile(file)
			if err != nil {
				o.SectionsDiffer = append(o.SectionsDiffer, "global-"+stage+"-unreadable")
				return
			}
			gen2, err := config.Load(string(raw2), false, log.NewNopLogger())
			if err != nil || !reflect.DeepEqual(gen2.GlobalConfig, orig2.GlobalConfig) {
				o.SectionsDiffer = append(o.SectionsDiffer, "global-"+stage)
			}
		}
		if err := cm.ReloadFromRaw([]byte(yaml2)); err != nil {
			o.Err += " second reload: " + err.Error()
		} else {
			check("after-external-labels-reload")
			if err := inj.UpdateTargets(map[string][]*target.Target{"job1": {mkTarget(projAssign{Job: "job1", H: 14})}}); err != nil {
				o.Err += " second update: " + err.Error()
			}
			check("after-external-labels-reload-and-update")
		}
	}
	// jobs come and go across reloads while the assignment stays: a job that is renamed away and restored gets its
	// targets back, and a job that appears only now gets the targets that were assigned to its name all along
	staticOf := func(jobName string) ([]string, bool) {
		raw3, err := os.ReadFile(file)
		if err != nil {
			return nil, false
		}
		gen3, err := config.Load(string(raw3), false, log.NewNopLogger())
		if err != nil {
			return nil, false
		}
		for _, g := range gen3.ScrapeConfigs {
			if g.JobName != jobName {
				continue
			}
			var addrs []string
			for _, sdc := range g.ServiceDiscoveryConfigs {
				if st, ok := sdc.(pdiscovery.StaticConfig); ok {
					for _, grp := range st {
						for _, t := range grp.Targets {
							addrs = append(addrs, string(t["__address__"]))
						}
					}
				}
			}
			sort.Strings(addrs)
			return addrs, true
		}
		return nil, false
	}
	if err := inj.UpdateTargets(assign); err == nil {
		away := strings.Replace(yaml, "job_name: job1\n", "job_name: job1-renamed\n", 1)
		if cm.ReloadFromRaw([]byte(away)) == nil && cm.ReloadFromRaw([]byte(yaml)) == nil {
			want := []string{}
			for _, t := range assign["job1"] {
				want = append(want, t.Address())
			}
			sort.Strings(want)
			if got, ok := staticOf("job1"); !ok || strings.Join(got, ",") != strings.Join(want, ",") {
				o.JobProblems = append(o.JobProblems, fmt.Sprintf("job1 after being renamed away and restored: targets %v, assigned %v", got, want))
			}
		}
		late := strings.Replace(yaml, "job_name: job1\n", "job_name: gone-job\n", 1)
		if cm.ReloadFromRaw([]byte(late)) == nil {
			if got, ok := staticOf("gone-job"); !ok || len(got) != 1 || got[0] != assign["gone-job"][0].Address() {
				o.JobProblems = append(o.JobProblems, fmt.Sprintf("gone-job appears in the configuration after its targets were assigned: targets %v", got))
			}
		}
	}
	// slots in file order: alerting, jobs (already appended above - reorder), remote write, remote read
	var slots []ijSlot
	for _, am := range gen.AlertingConfig.AlertmanagerConfigs {
		slots = append(slots, slotsOfHTTP("alerting", am.HTTPClientConfig)...)
	}
	slots = append(slots, o.Slots...)
	urlSlot := func(sec string, u *config_util.URL) {
		if u != nil && u.URL != nil && u.URL.User != nil {
			if pw, ok := u.URL.User.Password(); ok {
				slots = append(slots, ijSlot{sec, "url", pw})
			}
		}
	}
	for _, r := range gen.RemoteWriteConfigs {
		urlSlot("rw", r.URL)
		slots = append(slots, slotsOfHTTP("rw", r.HTTPClientConfig)...)
	}
	for _, r := range gen.RemoteReadConfigs {
		urlSlot("rr", r.URL)
		slots = append(slots, slotsOfHTTP("rr", r.HTTPClientConfig)...)
	}
	if slots == nil {
		slots = []ijSlot{}
	}
	o.Slots = slots
	return o
}

// dumpSecrets renders every exported scalar of a configuration value, secrets readable
// (config_util.Secret masks itself in every marshaller, reflection does not)
func dumpSecrets(v reflect.Value) string {
	var b strings.Builder
	var rec func(v reflect.Value, path string)
	rec = func(v reflect.Value, path string) {
		if v.IsValid() && v.Type() == reflect.TypeOf(url.URL{}) {
			u := v.Interface().(url.URL)
			fmt.Fprintf(&b, "%s=%q;", path, u.String()) // with the password of the userinfo, which reflection does not reach
			return
		}
		switch v.Kind() {
		case reflect.Ptr, reflect.Interface:
			if !v.IsNil() {
				rec(v.Elem(), path)
			}
		case reflect.Struct:
			if st, ok := v.Interface().(fmt.Stringer); ok && v.NumField() > 0 && v.Type().Field(0).PkgPath != "" && v.Type().Name() == "Regexp" {
				fmt.Fprintf(&b, "%s=~%q;", path, st.String())
				return
			}
			for i := 0; i < v.NumField(); i++ {
				if v.Type().Field(i).PkgPath == "" {
					rec(v.Field(i), path+"."+v.Type().Field(i).Name)
				}
			}
		case reflect.Slice, reflect.Array:
			for i := 0; i < v.Len(); i++ {
				rec(v.Index(i), fmt.Sprintf("%s[%d]", path, i))
			}
		case reflect.Map:
			keys := v.MapKeys()
			sort.Slice(keys, func(a, b int) bool { return fmt.Sprint(keys[a]) < fmt.Sprint(keys[b]) })
			for _, k := range keys {
				rec(v.MapIndex(k), fmt.Sprintf("%s[%v]", path, k))
			}
		case reflect.String:
			fmt.Fprintf(&b, "%s=%q;", path, v.String())
		case reflect.Bool, reflect.Int, reflect.Int64, reflect.Int32, reflect.Uint, reflect.Uint64, reflect.Float64:
			fmt.Fprintf(&b, "%s=%v;", path, v.Interface())
		}
	}
	rec(v, "")
	return b.String()
}

func sameRemote(a, b interface{}) bool {
	return dumpSecrets(reflect.ValueOf(a)) == dumpSecrets(reflect.ValueOf(b))
}
