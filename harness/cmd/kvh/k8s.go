package main

// kvh k8s: replays the cases enumerated by TLC from spec/MCK8sShards.tla against the real
// kubernetes.ReplicasManager / shard manager over a client-go fake clientset and records the
// resulting objects, the number of StatefulSet writes and the shard lists.

import (
	"context"
	"encoding/json"
	"flag"
	"fmt"
	"sort"
	"strconv"
	"strings"
	"time"

	appsv1 "k8s.io/api/apps/v1"
	corev1 "k8s.io/api/core/v1"
	apierrors "k8s.io/apimachinery/pkg/api/errors"
	metav1 "k8s.io/apimachinery/pkg/apis/meta/v1"
	"k8s.io/apimachinery/pkg/runtime"
	"k8s.io/apimachinery/pkg/runtime/schema"
	"k8s.io/client-go/kubernetes/fake"
	k8stesting "k8s.io/client-go/testing"
	kshard "tkestack.io/kvass/pkg/shard/kubernetes"
)

func init() { commands["k8s"] = cmdK8s }

type k8Pod struct {
	Ord int `json:"ord"`
	IP  int `json:"ip"`
}
type k8Pvc struct {
	Tpl int `json:"tpl"`
	Ord int `json:"ord"`
}
type k8Set struct {
	Name     string `json:"name"`
	Replicas int32  `json:"replicas"`
	Updated  int32  `json:"updated"`
	Ready    int32  `json:"ready"`
}
type k8Case struct {
	Kind     string  `json:"kind"`
	Pods     []k8Pod `json:"pods"`
	Replicas int32   `json:"replicas"`
	N        int32   `json:"n"`
	Ntpl     int     `json:"ntpl"`
	Flag     bool    `json:"flag"`
	UpdFail  bool    `json:"updfail"`
	Pvcs     []k8Pvc `json:"pvcs"`
	Sets     []k8Set `json:"sets"`
	Steps    []struct {
		St  k8Set `json:"st"`
		Adv int   `json:"adv"`
	} `json:"steps"`
}
type k8Shard struct {
	Ord   int  `json:"ord"`
	IP    int  `json:"ip"`
	Ready bool `json:"ready"`
}
type k8Obs struct {
	Shards      []k8Shard `json:"shards"`
	Replicas    int32     `json:"replicas"`
	Pvcs        []k8Pvc   `json:"pvcs"`
	Writes      int       `json:"writes"`
	Managers    []string  `json:"managers"`
	Coordinated []bool    `json:"coordinated"`
	Err         string    `json:"err,omitempty"`
}

const k8NS = "monitoring"

func k8Sts(name string, replicas int32, ntpl int, st k8Set) *appsv1.StatefulSet {
	s := &appsv1.StatefulSet{
		ObjectMeta: metav1.ObjectMeta{Name: name, Namespace: k8NS, Labels: map[string]string{"app": "kvass"}},
		Spec: appsv1.StatefulSetSpec{
			Selector: &metav1.LabelSelector{MatchLabels: map[string]string{"set": name}},
		},
		Status: appsv1.StatefulSetStatus{Replicas: st.Replicas, UpdatedReplicas: st.Updated, ReadyReplicas: st.Ready},
	}
	if replicas >= 0 {
		r := replicas
		s.Spec.Replicas = &r
	}
	for t := 1; t <= ntpl; t++ {
		s.Spec.VolumeClaimTemplates = append(s.Spec.VolumeClaimTemplates, corev1.PersistentVolumeClaim{
			ObjectMeta: metav1.ObjectMeta{Name: fmt.Sprintf("tpl%d", t)}})
	}
	return s
}

func pvcName(tpl int, set string, ord int) string { return fmt.Sprintf("tpl%d-%s-%d", tpl, set, ord) }

func cmdK8s(args []string) error {
	fs := flag.NewFlagSet("k8s", flag.ExitOnError)
	in := fs.String("in", "", "cases")
	out := fs.String("out", "", "observations")
	_ = fs.Parse(args)
	w, err := newNDWriter(*out)
	if err != nil {
		return err
	}
	defer w.Close()
	return readNDJSON(*in, func(line []byte) error {
		var rec struct {
			Case k8Case                 `json:"case"`
			Out  map[string]interface{} `json:"out"`
		}
		if err := json.Unmarshal(line, &rec); err != nil {
			return err
		}
		o := runK8sCase(&rec.Case)
		var raw map[string]interface{}
		_ = json.Unmarshal(line, &raw)
		return w.Write(map[string]interface{}{"case": raw["case"], "out": rec.Out, "obs": o})
	})
}

func runK8sCase(c *k8Case) k8Obs {
	o := k8Obs{Coordinated: []bool{}, Pvcs: []k8Pvc{}, Managers: []string{}, Shards: []k8Shard{}}
	switch c.Kind {
	case "scale", "list":
		st := k8Set{Name: "web", Replicas: 2, Updated: 2, Ready: 2}
		rep := c.Replicas
		if c.Kind == "list" {
			rep = int32(len(c.Pods))
		}
		objs := []runtime.Object{k8Sts("web", rep, c.Ntpl, st)}
		for _, p := range c.Pvcs {
			objs = append(objs, &corev1.PersistentVolumeClaim{ObjectMeta: metav1.ObjectMeta{Name: pvcName(p.Tpl, "web", p.Ord), Namespace: k8NS}})
		}
		// a claim of another StatefulSet with a similar name must never be touched
		objs = append(objs, &corev1.PersistentVolumeClaim{ObjectMeta: metav1.ObjectMeta{Name: "tpl1-web2-0", Namespace: k8NS}})
		cli := fake.NewSimpleClientset(objs...)
		// pods in exactly the order of the case
		cli.PrependReactor("list", "pods", func(a k8stesting.Action) (bool, runtime.Object, error) {
			l := &corev1.PodList{}
			for _, p := range c.Pods {
				pod := corev1.Pod{ObjectMeta: metav1.ObjectMeta{Name: fmt.Sprintf("web-%d", p.Ord), Namespace: k8NS, Labels: map[string]string{"set": "web"}}}
				if p.IP != 0 {
					pod.Status.PodIP = fmt.Sprintf("10.0.0.%d", p.IP)
				}
				l.Items = append(l.Items, pod)
			}
			return true, l, nil
		})
		rm := kshard.NewReplicasManager(cli, k8NS, "app=kvass", 8080, c.Flag, quietLog())
		ms, err := rm.Replicas()
		if err != nil || len(ms) != 1 {
			o.Err = fmt.Sprintf("replicas: %v (%d managers)", err, len(ms))
			return o
		}
		if c.Kind == "list" {
			shards, err := ms[0].Shards()
			if err != nil {
				o.Err = err.Error()
				return o
			}
			o.Shards = []k8Shard{}
			for _, s := range shards {
				ks := k8Shard{Ord: -1, Ready: s.Ready}
				if strings.HasPrefix(s.ID, "web-") {
					if n, err := strconv.Atoi(strings.TrimPrefix(s.ID, "web-")); err == nil {
						ks.Ord = n
					}
				}
				// the address is only visible through the requests the shard makes
				var seen string
				s.APIGet = func(url string, ret interface{}) error { seen = url; return fmt.Errorf("stop") }
				_, _ = s.RuntimeInfo()
				if i := strings.Index(seen, "http://10.0.0."); i == 0 {
					rest := strings.TrimPrefix(seen, "http://10.0.0.")
					if j := strings.Index(rest, ":8080/"); j > 0 {
						ks.IP, _ = strconv.Atoi(rest[:j])
					}
				}
				o.Shards = append(o.Shards, ks)
			}
			return o
		}
		if c.UpdFail {
			cli.PrependReactor("update", "statefulsets", func(a k8stesting.Action) (bool, runtime.Object, error) {
				// the kinds of rejection an API server answers with: optimistic-lock conflict, server-side failure, anything else
				gr := schema.GroupResource{Group: "apps", Resource: "statefulsets"}
				switch (int(c.N) + int(c.Replicas) + c.Ntpl) % 3 {
				case 0:
					return true, nil, apierrors.NewConflict(gr, "web", fmt.Errorf("the object has been modified; please apply your changes to the latest version and try again"))
				case 1:
					return true, nil, apierrors.NewInternalError(fmt.Errorf("etcdserver: request timed out"))
				}
				return true, nil, fmt.Errorf("Operation cannot be fulfilled on statefulsets.apps \"web\": the object has been modified")
			})
		}
		before := len(cli.Actions())
		if err := ms[0].ChangeScale(c.N); err != nil && !c.UpdFail {
			o.Err = err.Error()
		}
		for _, a := range cli.Actions()[before:] {
			if a.GetResource().Resource == "statefulsets" && (a.GetVerb() == "update" || a.GetVerb() == "patch" || a.GetVerb() == "create" || a.GetVerb() == "delete") {
				o.Writes++
			}
		}
		sts, err := cli.AppsV1().StatefulSets(k8NS).Get(context.TODO(), "web", metav1.GetOptions{})
		if err != nil {
			o.Err = err.Error()
			return o
		}
		o.Replicas = -1
		if sts.Spec.Replicas != nil {
			o.Replicas = *sts.Spec.Replicas
		}
		pl, _ := cli.CoreV1().PersistentVolumeClaims(k8NS).List(context.TODO(), metav1.ListOptions{})
		foreign := false
		for _, p := range pl.Items {
			if p.Name == "tpl1-web2-0" {
				foreign = true
				continue
			}
			var tpl, ord int
			if _, err := fmt.Sscanf(p.Name, "tpl%d-web-%d", &tpl, &ord); err == nil {
				o.Pvcs = append(o.Pvcs, k8Pvc{Tpl: tpl, Ord: ord})
			}
		}
		if !foreign {
			o.Err += " foreign claim tpl1-web2-0 deleted"
		}
		sort.Slice(o.Pvcs, func(a, b int) bool {
			if o.Pvcs[a].Tpl != o.Pvcs[b].Tpl {
				return o.Pvcs[a].Tpl < o.Pvcs[b].Tpl
			}
			return o.Pvcs[a].Ord < o.Pvcs[b].Ord
		})
	case "replicaseq":
		// one StatefulSet, its status changing between calls of Replicas() while minutes pass (the manager's memory is aged)
		o.Coordinated = []bool{}
		st0 := k8Set{Name: "a"}
		cli := fake.NewSimpleClientset(k8Sts("a", 2, 0, st0))
		rm := kshard.NewReplicasManager(cli, k8NS, "app=kvass", 8080, false, quietLog())
		for _, stp := range c.Steps {
			rm.VerifAge(time.Duration(stp.Adv) * time.Minute)
			cur, err := cli.AppsV1().StatefulSets(k8NS).Get(context.TODO(), "a", metav1.GetOptions{})
			if err != nil {
				o.Err = err.Error()
				return o
			}
			cur.Status = appsv1.StatefulSetStatus{Replicas: stp.St.Replicas, UpdatedReplicas: stp.St.Updated, ReadyReplicas: stp.St.Ready}
			if _, err := cli.AppsV1().StatefulSets(k8NS).UpdateStatus(context.TODO(), cur, metav1.UpdateOptions{}); err != nil {
				o.Err = err.Error()
				return o
			}
			ms, err := rm.Replicas()
			if err != nil {
				o.Err = err.Error()
				return o
			}
			o.Coordinated = append(o.Coordinated, len(ms) == 1)
		}
	case "replicas":
		var objs []runtime.Object
		for _, s := range c.Sets {
			objs = append(objs, k8Sts(s.Name, s.Replicas, 0, s))
		}
		cli := fake.NewSimpleClientset(objs...)
		rm := kshard.NewReplicasManager(cli, k8NS, "app=kvass", 8080, false, quietLog())
		ms, err := rm.Replicas()
		if err != nil {
			o.Err = err.Error()
			return o
		}
		// identify the managers by the StatefulSet they scale
		for _, m := range ms {
			before := len(cli.Actions())
			_ = m.ChangeScale(77)
			for _, a := range cli.Actions()[before:] {
				if ga, ok := a.(k8stesting.GetAction); ok && a.GetResource().Resource == "statefulsets" {
					o.Managers = append(o.Managers, ga.GetName())
					break
				}
			}
		}
		sort.Strings(o.Managers)
	}
	return o
}
