// kvh: conformance harness binding the TLA+ specifications in /verif/spec to the real
// tkestack/kvass code in /repo (built with -tags verif).  One sub-command per component.
package main

import (
	"fmt"
	_ "github.com/prometheus/prometheus/discovery/file"       // service discovery kinds used by the catalogue configuration
	_ "github.com/prometheus/prometheus/discovery/kubernetes" // (discovery/install does not link with this toolchain)
	"os"
)

var commands = map[string]func(args []string) error{}

func main() {
	if len(os.Args) < 2 {
		fmt.Fprintln(os.Stderr, "usage: kvh <command> [args]")
		os.Exit(2)
	}
	f := commands[os.Args[1]]
	if f == nil {
		fmt.Fprintf(os.Stderr, "unknown command %q\n", os.Args[1])
		os.Exit(2)
	}
	if err := f(os.Args[2:]); err != nil {
		fmt.Fprintln(os.Stderr, "kvh:", err)
		os.Exit(2)
	}
}
