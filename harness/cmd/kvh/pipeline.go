package main

// kvh pipeline: for every case enumerated by TLC from spec/MCPipeline.tla, renders the job and the
// discovered target group, and computes with the real code
//   plain   : scrape.TargetsFromGroup of the vendored Prometheus on the original job
//   sharded : TargetsDiscovery.Run -> ActiveTargetsByHash -> JSON -> sidecar targets update ->
//             Injector file -> config.Load -> scrape.TargetsFromGroup on the generated job ->
//             request through Proxy.ServeHTTP -> URL seen by the http client behind JobInfo.Cli
// plus the target hash under label / group rearrangements, repeated rounds and a fresh discovery.

import (
	"context"
	"encoding/json"
	"flag"
	"fmt"
	"net/http"
	"net/http/httptest"
	"net/url"
	"os"
	"path/filepath"
	"sort"
	"strings"
	"time"

	"github.com/go-kit/log"
	"github.com/prometheus/common/model"
	"github.com/prometheus/prometheus/config"
	pdiscovery "github.com/prometheus/prometheus/discovery"
	"github.com/prometheus/prometheus/discovery/targetgroup"
	pscrape "github.com/prometheus/prometheus/scrape"
	"tkestack.io/kvass/pkg/discovery"
	"tkestack.io/kvass/pkg/prom"
	"tkestack.io/kvass/pkg/shard"
	"tkestack.io/kvass/pkg/target"
)

func init() { commands["pipeline"] = cmdPipeline }

type plCfg struct {
	Scheme string `json:"scheme"`
	Path   string `json:"path"`
	K1     string `json:"k1"`
}
type plL struct {
	Addr   string `json:"addr"`
	Scheme string `json:"scheme"`
	Path   string `json:"path"`
	P1     string `json:"p1"`
	P3     string `json:"p3"`
	Inst   string `json:"inst"`
	App    string `json:"app"`
	Gapp   string `json:"gapp"`
	Bad    string `json:"bad"`
	Tmp    string `json:"tmp"`
	Lk1    string `json:"lk1"`
	Sib    string `json:"sib"`
}
type plURL struct {
	Scheme string          `json:"scheme"`
	Host   string          `json:"host"`
	Path   string          `json:"path"`
	Query  [][]interface{} `json:"query"`
}
type plOut struct {
	Labels [][]string `json:"labels"`
	URL    plURL      `json:"url"`
}
type plObs struct {
	Plain      []plOut  `json:"plain"`
	Sharded    []plOut  `json:"sharded"`
	Hashes     []string `json:"hashes"`
	HashStable bool     `json:"hashStable"`
	Collapsed  bool     `json:"collapsed"` // equal entries of a group collapse into one target
	TwinKept   bool     `json:"twinKept"`  // two entries that end with the same visible labels and differ in their address are two targets, as for Prometheus
	Err        string   `json:"err,omitempty"`
}

func plYAML(c plCfg, l plL) string {
	var b strings.Builder
	b.WriteString("global:\n  scrape_interval: 15s\nscrape_configs:\n- job_name: j\n")
	fmt.Fprintf(&b, "  scheme: %s\n  metrics_path: %s\n", c.Scheme, c.Path)
	switch c.K1 {
	case "one":
		b.WriteString("  params:\n    k1: [v1]\n")
	case "two":
		b.WriteString("  params:\n    k1: [v1, v2]\n")
	}
	rules := [][2]string{}
	add := func(lbl, v string) {
		if v != "" {
			rules = append(rules, [2]string{lbl, v})
		}
	}
	add("__scheme__", l.Scheme)
	add("__metrics_path__", l.Path)
	add("__param_k1", l.P1)
	add("__param_k3", l.P3)
	add("instance", l.Inst)
	add("__tmp_a", l.Tmp)
	if len(rules) > 0 {
		b.WriteString("  relabel_configs:\n")
		for _, r := range rules {
			fmt.Fprintf(&b, "  - target_label: %s\n    replacement: %q\n", r[0], r[1])
		}
	}
	b.WriteString("  static_configs:\n  - targets: [\"127.0.0.1:1\"]\n")
	return b.String()
}

// plGroup renders the discovered group.  Variants (all must give the same targets and hashes):
//
//	0 labels on the target, 1 labels on the group, 2 the target listed twice, 3 = 0 in a fresh discovery,
//	4 labels on the target AND (same values) on the group, 5 a second entry that differs only in a
//	__meta label (dropped after relabeling), 6 a second entry with the default port written out
func plGroup(l plL, variant int) *targetgroup.Group {
	tl := model.LabelSet{model.AddressLabel: model.LabelValue(l.Addr)}
	gl := model.LabelSet{}
	if l.Gapp != "" {
		gl["app"] = model.LabelValue(l.Gapp)
	}
	put := func(k, v string) {
		if v == "" {
			return
		}
		if variant == 1 && !(k == "app" && l.Gapp != "") {
			gl[model.LabelName(k)] = model.LabelValue(v) // the same label, on the group instead of the target
		} else {
			tl[model.LabelName(k)] = model.LabelValue(v)
		}
		if variant == 4 && !(k == "app" && l.Gapp != "") {
			gl[model.LabelName(k)] = model.LabelValue(v)
		}
	}
	put("app", l.App)
	put("1bad", l.Bad)
	put("k1", l.Lk1)
	g := &targetgroup.Group{Source: fmt.Sprintf("src-%d", variant), Targets: []model.LabelSet{tl}, Labels: gl}
	// a sibling entry that Prometheus rejects (error for that entry only), before or after the target
	var sib model.LabelSet
	switch l.Sib {
	case "noaddr":
		sib = model.LabelSet{model.AddressLabel: "", "app": "s"}
	case "badval":
		sib = model.LabelSet{model.AddressLabel: "h9:1", "app": "\xff"}
	}
	if sib != nil {
		if variant%2 == 0 {
			g.Targets = append([]model.LabelSet{sib}, g.Targets...)
		} else {
			g.Targets = append(g.Targets, sib)
		}
	}
	switch variant {
	case 2:
		g.Targets = append(g.Targets, tl.Clone())
	case 5:
		t2 := tl.Clone()
		t2["__meta_dup"] = "1"
		g.Targets = append(g.Targets, t2)
	case 7: // another target, listed twice, in front of this one
		other := model.LabelSet{model.AddressLabel: "h7:1234", "app": "other"}
		g.Targets = []model.LabelSet{other, other.Clone(), tl}
	case 8: // only that other target
		g.Targets = []model.LabelSet{{model.AddressLabel: "h7:1234", "app": "other"}}
	case 6:
		t2 := tl.Clone()
		if !strings.Contains(strings.TrimPrefix(l.Addr, "["), ":") || strings.HasSuffix(l.Addr, "]") {
			// no port given: the port that will be completed, written out
			scheme := l.Scheme
			if scheme == "" {
				scheme = "-"
			}
			t2[model.AddressLabel] = model.LabelValue(l.Addr + map[string]string{"https": ":443", "http": ":80", "-": ""}[scheme])
			if scheme == "-" {
				t2 = nil
			}
		}
		if t2 != nil {
			g.Targets = append(g.Targets, t2)
		}
	}
	return g
}

func canonLabels(ls [][]string) [][]string {
	sort.Slice(ls, func(a, b int) bool { return ls[a][0] < ls[b][0] })
	return ls
}

func outOf(lbls []string2, u *url.URL) plOut {
	o := plOut{Labels: [][]string{}}
	for _, l := range lbls {
		o.Labels = append(o.Labels, []string{l.n, l.v})
	}
	canonLabels(o.Labels)
	o.URL = plURL{Scheme: u.Scheme, Host: u.Host, Path: u.Path, Query: [][]interface{}{}}
	q := u.Query()
	keys := []string{}
	for k := range q {
		keys = append(keys, k)
	}
	sort.Strings(keys)
	for _, k := range keys {
		o.URL.Query = append(o.URL.Query, []interface{}{k, q[k]})
	}
	return o
}

type string2 struct{ n, v string }

func cmdPipeline(args []string) error {
	fs := flag.NewFlagSet("pipeline", flag.ExitOnError)
	in := fs.String("in", "", "cases")
	out := fs.String("out", "", "observations")
	_ = fs.Parse(args)
	wr, err := newNDWriter(*out)
	if err != nil {
		return err
	}
	defer wr.Close()
	dir, err := os.MkdirTemp("", "kvh-pipeline-")
	if err != nil {
		return err
	}
	defer cleanupDir(dir)
	n := 0
	return readNDJSON(*in, func(line []byte) error {
		var c struct {
			N   int   `json:"n"`
			Cfg plCfg `json:"cfg"`
			L   plL   `json:"L"`
		}
		if err := json.Unmarshal(line, &c); err != nil {
			return err
		}
		n++
		o := runPipelineCase(filepath.Join(dir, fmt.Sprint(n)), c.Cfg, c.L)
		cleanupDir(filepath.Join(dir, fmt.Sprint(n)))
		return wr.Write(map[string]interface{}{"n": c.N, "obs": o})
	})
}

func discoverOnce(yaml string, groups []*targetgroup.Group) (map[uint64]*discovery.SDTargets, error) {
	m, _, err := discoverCount(yaml, groups)
	return m, err
}

// discoverCount also returns the number of entries in the job's active list
func discoverCount(yaml string, groups []*targetgroup.Group) (map[uint64]*discovery.SDTargets, int, error) {
	lg := quietLog()
	td := discovery.New(lg)
	cfgm := prom.NewConfigManager()
	cfgm.AddReloadCallbacks(td.ApplyConfig)
	if err := cfgm.ReloadFromRaw([]byte(yaml)); err != nil {
		return nil, 0, err
	}
	ch := make(chan map[string][]*targetgroup.Group)
	ctx, cancel := context.WithCancel(context.Background())
	defer cancel()
	go func() { _ = td.Run(ctx, ch) }()
	ch <- map[string][]*targetgroup.Group{"j": groups}
	select {
	case <-td.ActiveTargetsChan():
	case <-time.After(5 * time.Second):
		return nil, 0, fmt.Errorf("discovery did not translate the update")
	}
	n := 0
	for _, l := range td.ActiveTargets() {
		n += len(l)
	}
	return td.ActiveTargetsByHash(), n, nil
}

func runPipelineCase(dir string, c plCfg, l plL) plObs {
	o := plObs{Plain: []plOut{}, Sharded: []plOut{}, Hashes: []string{}, HashStable: true, Collapsed: true, TwinKept: true}
	yaml := plYAML(c, l)
	pc, err := config.Load(yaml, false, log.NewNopLogger())
	if err != nil {
		o.Err = "config: " + err.Error()
		return o
	}
	job := pc.ScrapeConfigs[0]
	// ---- plain ----
	pts, errs := pscrape.TargetsFromGroup(plGroup(l, 0), job)
	if len(errs) > 0 {
		o.Err = fmt.Sprint("plain: ", errs)
	}
	seen := map[string]bool{}
	for _, t := range pts {
		if t.Labels().Len() == 0 {
			continue // dropped
		}
		var ls []string2
		for _, x := range t.Labels() {
			ls = append(ls, string2{x.Name, x.Value})
		}
		po := outOf(ls, t.URL())
		k, _ := json.Marshal(po)
		if !seen[string(k)] { // the scrape pool keeps one target per (labels, URL)
			seen[string(k)] = true
			o.Plain = append(o.Plain, po)
		}
	}
	// ---- sharded ----
	by, err := discoverOnce(yaml, []*targetgroup.Group{plGroup(l, 0)})
	if err != nil {
		o.Err += " discovery: " + err.Error()
		return o
	}
	ship := map[string][]*target.Target{}
	for _, t := range by {
		ship[t.Job] = append(ship[t.Job], t.ShardTarget)
		o.Hashes = append(o.Hashes, fmt.Sprint(t.ShardTarget.Hash))
	}
	sort.Strings(o.Hashes)
	var req shard.UpdateTargetsRequest
	if err := copyJSON(&req, &shard.UpdateTargetsRequest{Targets: ship}); err != nil { // over the wire
		o.Err += " json: " + err.Error()
		return o
	}
	_ = os.MkdirAll(dir, 0755)
	w := newSideWorld(dir, yaml)
	if w.loadErr != nil {
		o.Err += " sidecar: " + w.loadErr.Error()
		return o
	}
	if err := w.apiPost("/api/v1/shard/targets/", &req, nil); err != nil {
		o.Err += " update: " + err.Error()
		return o
	}
	raw, err := os.ReadFile(filepath.Join(dir, "injected.yaml"))
	if err != nil {
		o.Err += " injected: " + err.Error()
		return o
	}
	sc, err := config.Load(string(raw), false, log.NewNopLogger())
	if err != nil {
		o.Err += " load injected: " + err.Error()
		return o
	}
	var seenURL *url.URL
	w.cli.Transport = roundTripFunc(func(r *http.Request) (*http.Response, error) {
		u := *r.URL
		seenURL = &u
		return nil, fmt.Errorf("stop here")
	})
	for _, sj := range sc.ScrapeConfigs {
		for _, sdc := range sj.ServiceDiscoveryConfigs {
			st, ok := sdc.(pdiscovery.StaticConfig)
			if !ok {
				o.Err += " generated job has non-static discovery"
				continue
			}
			for _, g := range st {
				sts, errs := pscrape.TargetsFromGroup(g, sj)
				if len(errs) > 0 {
					o.Err += fmt.Sprint(" shard side: ", errs)
				}
				for _, t := range sts {
					if t.Labels().Len() == 0 {
						continue
					}
					seenURL = nil
					// the shard's Prometheus requests t.URL() through the proxy configured in the job
					rq := httptest.NewRequest("GET", t.URL().String(), nil)
					w.proxy.ServeHTTP(httptest.NewRecorder(), rq)
					if seenURL == nil {
						o.Err += " proxy made no request for " + t.URL().String()
						continue
					}
					var ls []string2
					for _, x := range t.Labels() {
						ls = append(ls, string2{x.Name, x.Value})
					}
					o.Sharded = append(o.Sharded, outOf(ls, seenURL))
				}
			}
		}
	}
	// ---- hash stability (C15): rearranged labels, duplicates, another round, a fresh discovery ----
	otherHashes := map[string]bool{}
	if byo, _, err := discoverCount(yaml, []*targetgroup.Group{plGroup(l, 8)}); err == nil {
		for _, t := range byo {
			otherHashes[fmt.Sprint(t.ShardTarget.Hash)] = true
		}
	}
	for variant := 1; variant <= 7; variant++ {
		v := variant
		if v == 3 {
			v = 0
		}
		by2, n2, err := discoverCount(yaml, []*targetgroup.Group{plGroup(l, v)})
		if err != nil {
			o.Err += " discovery variant: " + err.Error()
			continue
		}
		hs := []string{}
		for _, t := range by2 {
			h := fmt.Sprint(t.ShardTarget.Hash)
			if v == 7 && otherHashes[h] {
				continue // the other target is not what is compared
			}
			hs = append(hs, h)
		}
		sort.Strings(hs)
		if strings.Join(hs, ",") != strings.Join(o.Hashes, ",") {
			o.HashStable = false
		}
		if n2 != len(by2) {
			o.Collapsed = false // the job's active list holds the same target more than once
		}
	}
	// ---- twins: the same visible labels (instance set by the discovery), two addresses: two targets with two URLs ----
	if len(o.Plain) == 1 {
		t1 := plGroup(l, 0)
		var a model.LabelSet
		for _, t := range t1.Targets {
			if string(t[model.AddressLabel]) == l.Addr {
				a = t
			}
		}
		if a != nil && l.Addr != "" {
			a["instance"] = "same"
			b := a.Clone()
			b[model.AddressLabel] = "twin-host:4321"
			t1.Targets = append(t1.Targets, b)
			if by3, _, err := discoverCount(yaml, []*targetgroup.Group{t1}); err == nil {
				urls := map[string]bool{}
				for _, t := range by3 {
					urls[t.ShardTarget.Address()] = true
				}
				o.TwinKept = len(by3) == 2 && len(urls) == 2
			}
		}
	}
	return o
}
