package main

// kvh proxy: replays the scenarios enumerated by TLC from spec/MCProxyStream.tla on the real
// sidecar proxy (Proxy.ServeHTTP + scrape.Scraper + tee reader + VictoriaMetrics parser) with a
// scripted upstream body behind JobInfo.Cli and either a real HTTP server/client pair on the
// Prometheus side (what a Prometheus-side client observes: status, body, aborted) or a scripted
// http.ResponseWriter (short writes, write errors).

import (
	"bytes"
	"compress/gzip"
	"context"
	"encoding/json"
	"errors"
	"flag"
	"fmt"
	"io"
	"log"
	"math/rand"
	"net"
	"net/http"
	"net/http/httptest"
	"net/url"
	"os"
	"strings"
	"syscall"
	"time"

	"tkestack.io/kvass/pkg/prom"
)

func init() { commands["proxy"] = cmdProxy }

type pxFail struct {
	Kind string `json:"kind"`
	Off  int    `json:"off"`
}
type pxScenario struct {
	Len      int    `json:"len"`
	Cuts     []int  `json:"cuts"`
	Enc      string `json:"enc"`
	Fail     pxFail `json:"fail"`
	Short    int    `json:"short"`
	Werr     int    `json:"werr"`
	Stop     bool   `json:"stop"`
	Flip     bool   `json:"flip"`
	Assigned bool   `json:"assigned"`
	Unit     int    `json:"unit"` // bytes per unit (chosen by the orchestrator from the seed)
}
type pxCase struct {
	Sc  pxScenario             `json:"sc"`
	Out map[string]interface{} `json:"out"`
}
type pxObs struct {
	Status   int    `json:"status"`
	Aborted  bool   `json:"aborted"`
	Fwd      int    `json:"fwd"` // units forwarded (identity encoding; bytes / unit, rounded down)
	FwdBytes int    `json:"fwdBytes"`
	Prefix   bool   `json:"prefix"`
	Exact    bool   `json:"exact"`
	Ctype    bool   `json:"ctype"`
	Counted  int    `json:"counted"`
	Health   string `json:"health"`
	Errset   bool   `json:"errset"`
	Mode     string `json:"mode"`
	Upstream string `json:"upstreamURL"`
}

// scripted upstream body
type pxBody struct {
	data     []byte
	cuts     []int // byte offsets at which a Read returns
	pos      int
	failAt   int // byte offset at which the stream breaks off; -1 none
	failE    error
	withData bool // the error is returned by the same Read as the last bytes before the break (as net/http does for a reset behind buffered data)
}

func (b *pxBody) Read(p []byte) (int, error) {
	if b.failAt >= 0 && b.pos >= b.failAt {
		return 0, b.failE
	}
	if b.pos >= len(b.data) {
		return 0, io.EOF
	}
	end := len(b.data)
	for _, c := range b.cuts {
		if c > b.pos && c < end {
			end = c
		}
	}
	if b.failAt > b.pos && b.failAt < end {
		end = b.failAt
	}
	n := copy(p, b.data[b.pos:end])
	b.pos += n
	if b.withData && b.failAt >= 0 && b.pos >= b.failAt && n > 0 {
		return n, b.failE
	}
	return n, nil
}
func (b *pxBody) Close() error { return nil }

// scripted Prometheus-side writer
type pxWriter struct {
	hdr      http.Header
	status   int
	buf      bytes.Buffer
	maxWrite int
	werr     int
	nwrites  int
	ctypeAt  string // content type at the moment the header was sent
}

func (w *pxWriter) Header() http.Header { return w.hdr }
func (w *pxWriter) WriteHeader(code int) {
	if w.status == 0 {
		w.status = code
		w.ctypeAt = w.hdr.Get("Content-Type")
	}
}
func (w *pxWriter) Write(p []byte) (int, error) {
	w.nwrites++
	if w.werr != 0 && w.nwrites == w.werr {
		return 0, errors.New("write tcp: broken pipe")
	}
	if w.status == 0 {
		w.WriteHeader(200)
	}
	n := len(p)
	if w.maxWrite > 0 && n > w.maxWrite {
		n = w.maxWrite
	}
	w.buf.Write(p[:n])
	return n, nil
}

// renderBody builds nbytes of exposition text: samples, comments, blank lines and lines the
// statistics parser rejects, cut to exactly nbytes (the cut may fall inside a line).
func renderBody(nbytes int, rnd *rand.Rand) []byte {
	var b bytes.Buffer
	i := 0
	for b.Len() < nbytes {
		switch rnd.Intn(12) {
		case 0:
			b.WriteString("# HELP some_metric a comment line\n")
		case 1:
			b.WriteString("\n")
		case 2:
			b.WriteString("this line is not valid exposition text {{{\n")
		case 3:
			fmt.Fprintf(&b, "long_metric{pad=\"%s\"} 1\n", strings.Repeat("x", rnd.Intn(300)))
		default:
			fmt.Fprintf(&b, "metric_%d{idx=\"%d\",drop=\"%d\"} %d\n", i%7, i, i%2, rnd.Intn(1000))
		}
		i++
	}
	return b.Bytes()[:nbytes]
}

func cmdProxy(args []string) error {
	fs := flag.NewFlagSet("proxy", flag.ExitOnError)
	in := fs.String("in", "", "cases (ndjson)")
	out := fs.String("out", "", "observations (ndjson)")
	seed := fs.Int64("seed", 1, "seed for body rendering")
	_ = fs.Parse(args)
	w, err := newNDWriter(*out)
	if err != nil {
		return err
	}
	defer w.Close()
	dir, err := os.MkdirTemp("", "kvh-proxy-")
	if err != nil {
		return err
	}
	defer cleanupDir(dir)
	world := newSideWorld(dir, sideCfgYAML)
	// the proxy is served the way the sidecar serves it: through Proxy.Run on an address of its own
	ln, err := net.Listen("tcp", "127.0.0.1:0")
	if err != nil {
		return err
	}
	addr := ln.Addr().String()
	_ = ln.Close()
	log.SetOutput(io.Discard) // net/http reports aborted handlers on the standard logger
	go func() { _ = world.proxy.Run(addr) }()
	for i := 0; i < 200; i++ {
		if c, err := net.DialTimeout("tcp", addr, 100*time.Millisecond); err == nil {
			_ = c.Close()
			break
		}
		time.Sleep(10 * time.Millisecond)
	}
	pu, _ := url.Parse("http://" + addr)
	n := 0
	return readNDJSON(*in, func(line []byte) error {
		var c pxCase
		if err := json.Unmarshal(line, &c); err != nil {
			return err
		}
		n++
		rnd := rand.New(rand.NewSource(*seed*1000003 + int64(n)))
		o := runProxyCase(world, pu, &c.Sc, rnd)
		return w.Write(map[string]interface{}{"sc": c.Sc, "out": c.Out, "obs": o})
	})
}

func runProxyCase(world *sideWorld, proxyURL *url.URL, sc *pxScenario, rnd *rand.Rand) pxObs {
	const h = uint64(1)
	unit := sc.Unit
	if unit <= 0 {
		unit = 40
	}
	regular := sc.Enc == "gzip" && rnd.Intn(3) == 0
	if regular && unit < 40000 {
		unit = 40000 // long enough for the page to shrink several hundred times
	}
	body := renderBody(sc.Len*unit, rnd)
	if regular {
		// a very regular page: compresses several hundred times
		body = bytes.Repeat([]byte("metric_a{idx=\"1\",drop=\"0\"} 1\n"), sc.Len*unit/27+1)[:sc.Len*unit]
	}
	wire := body
	if sc.Enc == "gzip" {
		var zb bytes.Buffer
		parts := [][]byte{body}
		if rnd.Intn(4) == 0 && len(body) > 2 {
			// a stream of several gzip members (a target that flushes member by member): the body is their concatenation
			parts = [][]byte{body[:len(body)/3], {}, body[len(body)/3:]}
		}
		for _, part := range parts {
			zw := gzip.NewWriter(&zb)
			zw.Write(part)
			zw.Close()
		}
		wire = zb.Bytes()
	}
	scale := func(off int) int {
		if sc.Len == 0 {
			return 0
		}
		return off * len(wire) / sc.Len
	}
	// assignment and stop reason
	req := []projAssign{}
	if sc.Assigned {
		req = append(req, projAssign{Job: "j1", H: h, State: "", Series: 1, Total: 1})
	}
	if err := world.apiPost("/api/v1/shard/targets/", mkUpdateReq(req), nil); err != nil {
		panic(err)
	}
	reason := ""
	if sc.Stop {
		reason = "scraping stopped by the administrator"
	}
	if err := world.apiPost("/api/v1/status/extra_config/", &prom.ExtraConfig{StopScrapeReason: reason}, nil); err != nil {
		panic(err)
	}
	if rnd.Intn(2) == 0 {
		// the configuration is reloaded (same content) after the administrator's setting was made: the setting stays
		if err := world.cfgm.ReloadFromRaw([]byte(sideCfgYAML)); err != nil {
			panic(err)
		}
	}
	before := uint64(0)
	if st := world.tm.TargetsInfo().Status[h]; st != nil {
		before = st.ScrapeTimes
	}
	upstream := ""
	world.sim.answer = func(r *http.Request) simResponse {
		upstream = r.URL.String()
		switch sc.Fail.Kind {
		case "connect":
			return simResponse{err: &net.OpError{Op: "dial", Net: "tcp", Err: syscall.ECONNREFUSED}}
		case "timeout0":
			return simResponse{err: context.DeadlineExceeded}
		case "non200":
			return simResponse{status: 503, body: []byte("service unavailable")}
		}
		return simResponse{} // replaced below
	}
	bodyRd := &pxBody{data: wire, failAt: -1}
	for _, c := range sc.Cuts {
		bodyRd.cuts = append(bodyRd.cuts, scale(c))
	}
	switch sc.Fail.Kind {
	case "eof":
		bodyRd.failAt, bodyRd.failE = scale(sc.Fail.Off), io.ErrUnexpectedEOF
	case "reset":
		bodyRd.failAt, bodyRd.failE = scale(sc.Fail.Off), &net.OpError{Op: "read", Net: "tcp", Err: syscall.ECONNRESET}
	case "timeout":
		bodyRd.failAt, bodyRd.failE = scale(sc.Fail.Off), context.DeadlineExceeded
	case "other":
		bodyRd.failAt, bodyRd.failE = scale(sc.Fail.Off), errors.New("stream error: stream ID 3; INTERNAL_ERROR")
	}
	if bodyRd.failAt > 0 && sc.Enc == "identity" && rnd.Intn(2) == 0 {
		// the break falls right behind a complete line, and the error comes with the last bytes
		if i := bytes.LastIndexByte(wire[:bodyRd.failAt], '\n'); i > 0 {
			bodyRd.failAt = i + 1
			// an earlier read ends in the middle of a line
			if len(bodyRd.cuts) == 0 && i > 3 {
				bodyRd.cuts = append(bodyRd.cuts, i-2)
			}
		}
		bodyRd.withData = true
	}
	const ctype = "text/plain; version=0.0.4; charset=utf-8; x-case=1"
	world.cli.Transport = roundTripFunc(func(r *http.Request) (*http.Response, error) {
		if sc.Flip {
			// the stop setting changes while the target is answering
			other := ""
			if !sc.Stop {
				other = "scraping stopped by the administrator (mid-scrape)"
			}
			_ = world.cfgm.UpdateExtraConfig(prom.ExtraConfig{StopScrapeReason: other})
			if sc.Assigned {
				// ... and the coordinator sends a new assignment that keeps this target and adds another one
				_ = world.apiPost("/api/v1/shard/targets/", mkUpdateReq(append(append([]projAssign{}, req...), projAssign{Job: "j1", H: 77, Series: 1, Total: 1})), nil)
			}
		}
		pre := world.sim.answer(r)
		if pre.err != nil {
			return nil, pre.err
		}
		hd := http.Header{}
		hd.Set("Content-Type", ctype)
		if pre.status != 0 {
			return &http.Response{StatusCode: pre.status, Status: "503 Service Unavailable", Header: hd,
				Body: io.NopCloser(bytes.NewReader(pre.body)), Request: r}, nil
		}
		if sc.Enc == "gzip" {
			hd.Set("Content-Encoding", "gzip")
		}
		resp := &http.Response{StatusCode: 200, Status: "200 OK", Header: hd, Body: bodyRd, Request: r, ContentLength: -1}
		if len(sc.Cuts) == 0 {
			resp.ContentLength = int64(len(wire)) // not chunked: the length is announced
		}
		return resp, nil
	})
	defer func() { world.cli.Transport = world.sim }()

	target := fmt.Sprintf("http://%s/metrics?_jobName=j1&_hash=%d&_scheme=http&extra=1", targetAddr(h), h)
	var o pxObs
	var got []byte
	gotCtype := ""
	if sc.Short != 0 || sc.Werr != 0 {
		o.Mode = "rw"
		pw := &pxWriter{hdr: http.Header{}, maxWrite: sc.Short * unit, werr: sc.Werr}
		func() {
			defer func() {
				if r := recover(); r != nil {
					if r == http.ErrAbortHandler {
						o.Aborted = true
						return
					}
					panic(r)
				}
			}()
			world.proxy.ServeHTTP(pw, httptest.NewRequest("GET", target, nil))
		}()
		o.Status = pw.status
		if o.Status == 0 {
			o.Status = 200
			pw.ctypeAt = pw.hdr.Get("Content-Type")
		}
		got = pw.buf.Bytes()
		gotCtype = pw.ctypeAt
	} else {
		o.Mode = "http"
		cli := &http.Client{Transport: &http.Transport{Proxy: http.ProxyURL(proxyURL), DisableKeepAlives: true}}
		resp, err := cli.Get(target)
		if err != nil {
			o.Aborted = true
		} else {
			o.Status = resp.StatusCode
			gotCtype = resp.Header.Get("Content-Type")
			b, rerr := io.ReadAll(resp.Body)
			resp.Body.Close()
			got = b
			if rerr != nil {
				o.Aborted = true
			}
		}
		cli.CloseIdleConnections()
	}
	o.FwdBytes = len(got)
	o.Prefix = bytes.HasPrefix(body, got)
	o.Exact = bytes.Equal(body, got)
	if unit > 0 {
		o.Fwd = len(got) / unit
	}
	o.Ctype = o.Status == 200 && gotCtype == ctype
	o.Upstream = upstream
	if st := world.tm.TargetsInfo().Status[h]; st != nil {
		o.Counted = int(st.ScrapeTimes - before)
		o.Health = string(st.Health)
		o.Errset = st.LastError != ""
	} else {
		o.Health = "none"
	}
	return o
}

type roundTripFunc func(*http.Request) (*http.Response, error)

func (f roundTripFunc) RoundTrip(r *http.Request) (*http.Response, error) { return f(r) }
