package main

// kvh proxypair: two scrapes through the same real Proxy at the same time, interleaved as a
// behaviour of spec/ProxyPair.tla says (hist: who takes which step).  The upstream round trip and
// every Read of the scripted upstream bodies are gates; a scheduler grants them in the order of
// the behaviour and lets a step finish (the scrape reaches its next gate or returns) before the
// next token is served.  Where the real number of reads differs from the model's (gzip: the
// decoder reads the transported stream in its own portions) surplus gates are granted once the
// other scrape's tokens are used up: the schedule is followed as closely as the code allows, and
// the verdict never depends on how closely.

import (
	"bytes"
	"compress/gzip"
	"context"
	"encoding/json"
	"errors"
	"flag"
	"fmt"
	"io"
	"math/rand"
	"net"
	"net/http"
	"net/http/httptest"
	"os"
	"syscall"
	"time"

	"tkestack.io/kvass/pkg/prom"
)

func init() { commands["proxypair"] = cmdProxyPair }

type ppCase struct {
	N    int                    `json:"n"`
	ScA  pxScenario             `json:"scA"`
	ScB  pxScenario             `json:"scB"`
	OutA map[string]interface{} `json:"outA"`
	OutB map[string]interface{} `json:"outB"`
	Hist [][]string             `json:"hist"`
}

type ppGate struct {
	arrive chan chan struct{} // the scrape announces a gate and waits for the reply channel to be closed
	done   chan struct{}
	pend   chan struct{} // an arrival the scheduler has seen but not yet granted
}

func (g *ppGate) wait() {
	c := make(chan struct{})
	select {
	case g.arrive <- c:
		<-c
	case <-time.After(5 * time.Second): // the scheduler is gone: never block a scrape for ever
	}
}

type ppBody struct {
	pxBody
	gate *ppGate
}

func (b *ppBody) Read(p []byte) (int, error) {
	b.gate.wait()
	return b.pxBody.Read(p)
}

type ppScrape struct {
	sc    *pxScenario
	h     uint64
	body  []byte
	wire  []byte
	rd    *ppBody
	gate  *ppGate
	obs   pxObs
	reqs  int
	befor uint64
}

const ppCtype = "text/plain; version=0.0.4; charset=utf-8; x-case=2"

func ppPrepare(sc *pxScenario, h uint64, rnd *rand.Rand) *ppScrape {
	unit := sc.Unit
	if unit <= 0 {
		unit = 40
	}
	s := &ppScrape{sc: sc, h: h, gate: &ppGate{arrive: make(chan chan struct{}), done: make(chan struct{})}}
	s.body = renderBody(sc.Len*unit, rnd)
	s.wire = s.body
	if sc.Enc == "gzip" {
		var zb bytes.Buffer
		zw := gzip.NewWriter(&zb)
		zw.Write(s.body)
		zw.Close()
		s.wire = zb.Bytes()
	}
	scale := func(off int) int {
		if sc.Len == 0 {
			return 0
		}
		return off * len(s.wire) / sc.Len
	}
	s.rd = &ppBody{pxBody: pxBody{data: s.wire, failAt: -1}, gate: s.gate}
	for _, c := range sc.Cuts {
		s.rd.cuts = append(s.rd.cuts, scale(c))
	}
	switch sc.Fail.Kind {
	case "eof":
		s.rd.failAt, s.rd.failE = scale(sc.Fail.Off), io.ErrUnexpectedEOF
	case "reset":
		s.rd.failAt, s.rd.failE = scale(sc.Fail.Off), &net.OpError{Op: "read", Net: "tcp", Err: syscall.ECONNRESET}
	case "timeout":
		s.rd.failAt, s.rd.failE = scale(sc.Fail.Off), context.DeadlineExceeded
	case "other":
		s.rd.failAt, s.rd.failE = scale(sc.Fail.Off), errors.New("stream error: stream ID 3; INTERNAL_ERROR")
	}
	return s
}

func (s *ppScrape) roundTrip(r *http.Request) (*http.Response, error) {
	s.gate.wait()
	s.reqs++
	switch s.sc.Fail.Kind {
	case "connect":
		return nil, &net.OpError{Op: "dial", Net: "tcp", Err: syscall.ECONNREFUSED}
	case "timeout0":
		return nil, context.DeadlineExceeded
	}
	hd := http.Header{}
	hd.Set("Content-Type", ppCtype)
	if s.sc.Fail.Kind == "non200" {
		return &http.Response{StatusCode: 503, Status: "503 Service Unavailable", Header: hd, Body: io.NopCloser(bytes.NewReader([]byte("unavailable"))), Request: r}, nil
	}
	if s.sc.Enc == "gzip" {
		hd.Set("Content-Encoding", "gzip")
	}
	return &http.Response{StatusCode: 200, Status: "200 OK", Header: hd, Body: s.rd, Request: r}, nil
}

func (s *ppScrape) run(world *sideWorld) {
	defer close(s.gate.done)
	target := fmt.Sprintf("http://%s/metrics?_jobName=j1&_hash=%d&_scheme=http", targetAddr(s.h), s.h)
	pw := &pxWriter{hdr: http.Header{}}
	o := &s.obs
	o.Mode = "pair"
	func() {
		defer func() {
			if r := recover(); r != nil {
				if r == http.ErrAbortHandler {
					o.Aborted = true
					return
				}
				o.Upstream = fmt.Sprint("panic: ", r)
				o.Aborted = true
			}
		}()
		world.proxy.ServeHTTP(pw, httptest.NewRequest("GET", target, nil))
	}()
	o.Status = pw.status
	if o.Status == 0 {
		o.Status = 200
		pw.ctypeAt = pw.hdr.Get("Content-Type")
	}
	got := pw.buf.Bytes()
	o.FwdBytes = len(got)
	o.Prefix = bytes.HasPrefix(s.body, got)
	o.Exact = bytes.Equal(s.body, got)
	unit := s.sc.Unit
	if unit <= 0 {
		unit = 40
	}
	o.Fwd = len(got) / unit
	o.Ctype = o.Status == 200 && pw.ctypeAt == ppCtype
}

// schedule serves the tokens of the behaviour; returns how many tokens found their scrape at a gate
func ppSchedule(hist [][]string, sc map[string]*ppScrape) (followed int, stuck bool) {
	finished := func(g *ppGate) bool {
		select {
		case <-g.done:
			return true
		default:
			return false
		}
	}
	pending := map[string]chan struct{}{}
	// next arrival of x (or its end); false when it ended
	next := func(x string) bool {
		if pending[x] != nil {
			return true
		}
		g := sc[x].gate
		select {
		case c := <-g.arrive:
			pending[x] = c
			return true
		case <-g.done:
			return false
		case <-time.After(2 * time.Second):
			stuck = true // this scrape neither asks nor ends: the schedule is abandoned, everything runs free
			return false
		}
	}
	for _, tok := range hist {
		if stuck {
			break
		}
		x, act := tok[0], tok[1]
		s := sc[x]
		if s == nil {
			continue
		}
		if act == "finish" {
			// the scrape completes before anything later in the behaviour: grant whatever it still asks for
			for !finished(s.gate) && !stuck {
				if next(x) {
					close(pending[x])
					pending[x] = nil
				}
			}
			continue
		}
		if !next(x) {
			continue // ended earlier than the model's count of steps
		}
		followed++
		close(pending[x])
		pending[x] = nil
		next(x) // the step is complete when the scrape is at its next gate or has returned
	}
	// surplus gates (and, if the schedule had to be abandoned, everything that is left): whoever asks is served
	for x, c := range pending {
		if c != nil {
			close(c)
			pending[x] = nil
		}
	}
	deadline := time.After(20 * time.Second)
	for !(finished(sc["A"].gate) && finished(sc["B"].gate)) {
		select {
		case c := <-sc["A"].gate.arrive:
			close(c)
		case c := <-sc["B"].gate.arrive:
			close(c)
		case <-time.After(10 * time.Millisecond):
		case <-deadline:
			return followed, true
		}
	}
	return followed, false
}

func cmdProxyPair(args []string) error {
	fs := flag.NewFlagSet("proxypair", flag.ExitOnError)
	in := fs.String("in", "", "behaviours (ndjson)")
	out := fs.String("out", "", "observations (ndjson)")
	seed := fs.Int64("seed", 1, "seed for body rendering")
	_ = fs.Parse(args)
	w, err := newNDWriter(*out)
	if err != nil {
		return err
	}
	defer w.Close()
	dir, err := os.MkdirTemp("", "kvh-proxypair-")
	if err != nil {
		return err
	}
	defer cleanupDir(dir)
	world := newSideWorld(dir, sideCfgYAML)
	if err := world.apiPost("/api/v1/status/extra_config/", &prom.ExtraConfig{}, nil); err != nil {
		return err
	}
	n := 0
	return readNDJSON(*in, func(line []byte) error {
		var c ppCase
		if err := json.Unmarshal(line, &c); err != nil {
			return err
		}
		n++
		rnd := rand.New(rand.NewSource(*seed*7919 + int64(n)))
		a, b := ppPrepare(&c.ScA, 1, rnd), ppPrepare(&c.ScB, 2, rnd)
		req := []projAssign{}
		for _, s := range []*ppScrape{a, b} {
			if s.sc.Assigned {
				req = append(req, projAssign{Job: "j1", H: s.h, State: "", Series: 1, Total: 1})
			}
		}
		if err := world.apiPost("/api/v1/shard/targets/", mkUpdateReq(req), nil); err != nil {
			return err
		}
		for _, s := range []*ppScrape{a, b} {
			if st := world.tm.TargetsInfo().Status[s.h]; st != nil {
				s.befor = st.ScrapeTimes
			}
		}
		world.cli.Transport = roundTripFunc(func(r *http.Request) (*http.Response, error) {
			if r.URL.Host == targetAddr(1) {
				return a.roundTrip(r)
			}
			return b.roundTrip(r)
		})
		go a.run(world)
		go b.run(world)
		followed, stuck := ppSchedule(c.Hist, map[string]*ppScrape{"A": a, "B": b})
		<-a.gate.done
		<-b.gate.done
		world.cli.Transport = world.sim
		for _, s := range []*ppScrape{a, b} {
			if st := world.tm.TargetsInfo().Status[s.h]; st != nil {
				s.obs.Counted = int(st.ScrapeTimes - s.befor)
				s.obs.Health = string(st.Health)
				s.obs.Errset = st.LastError != ""
			} else {
				s.obs.Health = "none"
			}
		}
		return w.Write(map[string]interface{}{"n": c.N, "scA": c.ScA, "scB": c.ScB, "outA": c.OutA, "outB": c.OutB,
			"obsA": a.obs, "obsB": b.obs, "followed": followed, "tokens": len(c.Hist), "stuck": stuck})
	})
}
