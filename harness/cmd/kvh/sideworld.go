package main

// sideWorld: one real sidecar, wired as cmd/kvass/sidecar.go wires it (config manager, scrape
// manager, targets manager with its store directory, injector writing the generated file,
// proxy, API service), in process.  The environment it needs is simulated: the targets behind
// JobInfo.Cli (an in-memory RoundTripper), Prometheus' own head series, the clock.

import (
	"bytes"
	"encoding/json"
	"fmt"
	"io"
	"net/http"
	"net/http/httptest"
	"os"
	"path/filepath"
	"sort"
	"strings"
	"sync"
	"time"

	"github.com/gin-gonic/gin"
	kitlog "github.com/go-kit/log"
	"github.com/prometheus/client_golang/prometheus"
	"github.com/prometheus/common/model"
	pconfig "github.com/prometheus/prometheus/config"
	pdisc "github.com/prometheus/prometheus/discovery"
	"tkestack.io/kvass/pkg/api"
	"tkestack.io/kvass/pkg/prom"
	"tkestack.io/kvass/pkg/scrape"
	"tkestack.io/kvass/pkg/shard"
	"tkestack.io/kvass/pkg/sidecar"
	"tkestack.io/kvass/pkg/target"
)

func init() {
	gin.SetMode(gin.ReleaseMode)
	gin.DefaultWriter = io.Discard
	gin.DefaultErrorWriter = io.Discard
}

// virtual clock shared by all sidecars of a run (sidecar.timeNow is a package variable)
var (
	vclockMu   sync.Mutex
	vclockBase = time.Date(2030, 1, 1, 0, 0, 0, 0, time.UTC)
	vclockTick int64
)

func vclockNow() time.Time {
	vclockMu.Lock()
	defer vclockMu.Unlock()
	return vclockBase.Add(time.Duration(vclockTick) * time.Hour)
}
func vclockSet(t int64) { vclockMu.Lock(); vclockTick = t; vclockMu.Unlock() }
func vclockOf(t *time.Time) int64 {
	if t == nil {
		return -1
	}
	return int64(t.Sub(vclockBase) / time.Hour)
}

// the two-job configuration used by the sidecar, closed-loop and proxy harnesses: samples that
// carry the label drop="1" are removed by metric relabeling.
const sideCfgYAML = `global:
  scrape_interval: 15s
  external_labels:
    cluster: c1
scrape_configs:
- job_name: j1
  scrape_timeout: 2s
  metric_relabel_configs:
  - source_labels: [drop]
    regex: "1"
    action: drop
  static_configs:
  - targets: ["10.0.0.1:9100"]
- job_name: j2
  scrape_timeout: 2s
  metric_relabel_configs:
  - source_labels: [__name__, drop]
    regex: "m_[ab];1"
    action: drop
  - source_labels: [__name__, idx]
    regex: "never_there;.*"
    action: drop
  static_configs:
  - targets: ["10.0.0.2:9100"]
`

// what a simulated target answers
type simResponse struct {
	status  int
	body    []byte
	err     error
	ctype   string
	gzipped bool
}

type simTargets struct {
	mu     sync.Mutex
	answer func(req *http.Request) simResponse
	seen   []string
}

func (s *simTargets) RoundTrip(req *http.Request) (*http.Response, error) {
	s.mu.Lock()
	f := s.answer
	s.seen = append(s.seen, req.URL.String())
	s.mu.Unlock()
	if f == nil {
		return nil, fmt.Errorf("sim: no answer configured")
	}
	r := f(req)
	if r.err != nil {
		return nil, r.err
	}
	h := http.Header{}
	ct := r.ctype
	if ct == "" {
		ct = "text/plain; version=0.0.4"
	}
	h.Set("Content-Type", ct)
	if r.gzipped {
		h.Set("Content-Encoding", "gzip")
	}
	st := r.status
	if st == 0 {
		st = 200
	}
	return &http.Response{StatusCode: st, Status: fmt.Sprintf("%d %s", st, http.StatusText(st)), Header: h,
		Body: io.NopCloser(bytes.NewReader(r.body)), Request: req, ProtoMajor: 1, ProtoMinor: 1}, nil
}

type sideWorld struct {
	dir         string
	cfgm        *prom.ConfigManager
	sm          *scrape.Manager
	tm          *sidecar.TargetsManager
	inj         *sidecar.Injector
	proxy       *sidecar.Proxy
	svc         *sidecar.Service
	promHead    int64
	promDown    bool // Prometheus does not answer the head-series request
	sim         *simTargets
	cli         *http.Client
	loadErr     error
	failNext    bool      // the next targets update meets a failing reload of Prometheus (last update callback)
	cfgFailNext bool      // the next configuration reload meets a failing reload of Prometheus (last reload callback)
	fileFrom    string    // the raw configuration the generated file was last written from
	loadedFrom  string    // the raw configuration the generated file was made from when Prometheus last loaded it
	loaded      []projGen // what the (simulated) Prometheus runs with: the generated file as it was at the last reload that succeeded
}

// newSideWorld starts a sidecar on store directory dir (created if needed) and loads the store,
// as a process start does.  cfgYAML "" leaves the sidecar without configuration (it then waits
// for the coordinator to push one).
func newSideWorld(dir string, cfgYAML string) *sideWorld { return newSideWorldFile(dir, cfgYAML, "") }

// newSideWorldFile: cfgFile != "" starts the sidecar in file mode (its configuration is read from that file at start
// and again on POST /-/reload/)
func newSideWorldFile(dir string, cfgYAML string, cfgFile string) *sideWorld {
	w := &sideWorld{dir: dir, sim: &simTargets{}}
	w.cli = &http.Client{Transport: w.sim}
	reg := prometheus.NewRegistry()
	lg := quietLog()
	w.cfgm = prom.NewConfigManager()
	w.sm = scrape.New(false, lg)
	w.tm = sidecar.NewTargetsManager(filepath.Join(dir, "store"), reg, lg)
	w.inj = sidecar.NewInjector(filepath.Join(dir, "injected.yaml"), sidecar.InjectConfigOptions{ProxyURL: "http://127.0.0.1:8008"}, reg, lg)
	w.proxy = sidecar.NewProxy(func(job string) *scrape.JobInfo {
		j := w.sm.GetJob(job)
		if j != nil {
			j.Cli = w.cli
		}
		return j
	}, func() map[uint64]*target.ScrapeStatus { return w.tm.TargetsInfo().Status }, w.cfgm.ConfigInfo, reg, lg)
	w.loaded = []projGen{}
	w.cfgm.AddReloadCallbacks(w.sm.ApplyConfig, w.inj.ApplyConfig, func(ci *prom.ConfigInfo) error {
		w.fileFrom = string(ci.RawContent) // the injector has written the file from this configuration
		if startReloadFails {
			return fmt.Errorf("scripted: prometheus is not up")
		}
		if w.cfgFailNext {
			w.cfgFailNext = false
			return fmt.Errorf("scripted: prometheus reload failed")
		}
		w.loaded = w.generated()
		w.loadedFrom = string(ci.RawContent)
		return nil
	})
	w.tm.AddUpdateCallbacks(w.inj.UpdateTargets, func(map[string][]*target.Target) error {
		if w.failNext || startReloadFails {
			w.failNext = false
			return fmt.Errorf("scripted: prometheus reload failed")
		}
		w.loaded = w.generated()
		w.loadedFrom = w.fileFrom
		return nil
	})
	w.svc = sidecar.NewService(cfgFile, "http://127.0.0.1:9090", func() (int64, error) {
		if w.promDown {
			return 0, fmt.Errorf("scripted: prometheus is not reachable")
		}
		return w.promHead, nil
	},
		w.cfgm, w.tm, reg, lg)
	if cfgYAML != "" {
		if err := w.cfgm.ReloadFromRaw([]byte(cfgYAML)); err != nil {
			w.loadErr = err
		}
	}
	if cfgFile != "" {
		if err := w.cfgm.ReloadFromFile(cfgFile); err != nil {
			w.loadErr = err
		}
	}
	if err := w.tm.Load(); err != nil {
		w.loadErr = err
	}
	return w
}

// restart simulates a process restart on the same store directory and configuration.
func (w *sideWorld) restart() *sideWorld { return w.restartWith(false) }

// restartWith(true): Prometheus does not take any reload while the new process starts (it is not up yet); it goes on with
// what it had loaded
func (w *sideWorld) restartWith(reloadFails bool) *sideWorld {
	raw := ""
	if w.cfgm.ConfigInfo().ConfigHash != "" {
		raw = string(w.cfgm.ConfigInfo().RawContent)
	}
	startReloadFails = reloadFails
	n := newSideWorld(w.dir, raw)
	startReloadFails = false
	if reloadFails && raw != "" {
		// the configuration the sidecar was given while its Prometheus was not up is not in force; the coordinator
		// pushes it again, and this time Prometheus takes the reload
		if err := n.cfgm.ReloadFromRaw([]byte(raw)); err != nil {
			n.loadErr = err
		}
	}
	n.promHead = w.promHead
	n.sim.answer = w.sim.answer
	return n
}

// promReads: Prometheus comes up (or reloads by itself) and reads the generated file
func (w *sideWorld) promReads() {
	w.loaded = w.generated()
	w.loadedFrom = w.fileFrom
}

// set while a sideWorld is being constructed whose Prometheus refuses every reload
var startReloadFails bool

// apiGet / apiPost call the real service handler in process, decoding the answer exactly as
// pkg/api.Get / Post do.
func (w *sideWorld) apiGet(path string, ret interface{}) error {
	return decodeAPI(w.serve("GET", path, nil), ret)
}

func (w *sideWorld) apiPost(path string, req interface{}, ret interface{}) error {
	var body []byte
	if req != nil {
		b, err := json.Marshal(req)
		if err != nil {
			return err
		}
		body = b
	}
	return decodeAPI(w.serve("POST", path, body), ret)
}

// serve runs one request through the real service handler, following redirects as net/http's
// client does (gin redirects /x to /x/ with 307 for POST and 301 for GET).
func (w *sideWorld) serve(method, path string, body []byte) *httptest.ResponseRecorder {
	var rec *httptest.ResponseRecorder
	for i := 0; i < 4; i++ {
		rec = httptest.NewRecorder()
		r := httptest.NewRequest(method, path, bytes.NewReader(body))
		if body != nil {
			r.Header.Set("Content-Type", "application/json")
		}
		w.svc.ServeHTTP(rec, r)
		if rec.Code == 301 || rec.Code == 302 || rec.Code == 307 || rec.Code == 308 {
			if loc := rec.Header().Get("Location"); loc != "" {
				path = loc
				continue
			}
		}
		break
	}
	return rec
}

func decodeAPI(rec *httptest.ResponseRecorder, ret interface{}) error {
	if rec.Code != 200 {
		return fmt.Errorf("status code is %d", rec.Code)
	}
	if ret != nil {
		common := api.Data(ret)
		if err := json.Unmarshal(rec.Body.Bytes(), common); err != nil {
			return fmt.Errorf("Unmarshal: %v", err)
		}
		if common.Status != api.StatusSuccess {
			return fmt.Errorf("%s", common.Err)
		}
	}
	return nil
}

// ---- projection to the variables of spec/Sidecar.tla ----

type projAssign struct {
	Job    string `json:"job"`
	H      uint64 `json:"h"`
	State  string `json:"state"`
	Series int64  `json:"series"`
	Total  int64  `json:"total"`
}
type projStatus struct {
	H      uint64 `json:"h"`
	State  string `json:"state"`
	Health string `json:"health"`
	Err    bool   `json:"err"`
	Times  uint64 `json:"times"`
	Series int64  `json:"series"`
	Total  int64  `json:"total"`
}
type projRT struct {
	Head   int64  `json:"head"`
	Proc   int64  `json:"proc"`
	IdleAt int64  `json:"idleAt"`
	Hash   string `json:"hash,omitempty"`
}
type sideProj struct {
	Assign []projAssign `json:"assign"`
	Status []projStatus `json:"status"`
	RT     projRT       `json:"rt"`
	RTErr  string       `json:"rtErr,omitempty"`
	Gen    []projGen    `json:"gen"`
	Loaded []projGen    `json:"loaded"`
}

func (w *sideWorld) project() sideProj {
	p := sideProj{Assign: []projAssign{}, Status: []projStatus{}}
	info := w.tm.TargetsInfo()
	jobs := make([]string, 0, len(info.Targets))
	for j := range info.Targets {
		jobs = append(jobs, j)
	}
	sort.Strings(jobs)
	for _, j := range jobs {
		for _, t := range info.Targets[j] {
			p.Assign = append(p.Assign, projAssign{Job: j, H: t.Hash, State: t.TargetState, Series: t.Series, Total: t.TotalSeries})
		}
	}
	sort.SliceStable(p.Assign, func(a, b int) bool { return p.Assign[a].H < p.Assign[b].H })
	st := map[uint64]*target.ScrapeStatus{}
	if err := w.apiGet("/api/v1/shard/targets/status/", &st); err != nil {
		p.RTErr = "status: " + err.Error()
	}
	for h, s := range st {
		p.Status = append(p.Status, projStatus{H: h, State: s.TargetState, Health: string(s.Health), Err: s.LastError != "",
			Times: s.ScrapeTimes, Series: s.Series, Total: s.TotalSeries})
	}
	sort.Slice(p.Status, func(a, b int) bool { return p.Status[a].H < p.Status[b].H })
	p.Gen = w.generated()
	p.Loaded = append([]projGen{}, w.loaded...)
	rt := &shard.RuntimeInfo{}
	if err := w.apiGet("/api/v1/shard/runtimeinfo/", &rt); err != nil {
		p.RTErr += " rt: " + err.Error()
	} else {
		p.RT = projRT{Head: rt.HeadSeries, Proc: rt.ProcessSeries, IdleAt: vclockOf(rt.IdleStartAt)}
	}
	return p
}

// generated: the (job, hash) pairs of the static entries in the configuration file the injector wrote for Prometheus
func (w *sideWorld) generated() []projGen {
	out := []projGen{}
	raw, err := os.ReadFile(filepath.Join(w.dir, "injected.yaml"))
	if err != nil {
		return out
	}
	gc, err := pconfig.Load(string(raw), false, kitlog.NewNopLogger())
	if err != nil {
		return append(out, projGen{Job: "unloadable: " + err.Error()})
	}
	for _, job := range gc.ScrapeConfigs {
		for _, sdc := range job.ServiceDiscoveryConfigs {
			if st, ok := sdc.(pdisc.StaticConfig); ok {
				for _, g := range st {
					var h uint64
					fmt.Sscanf(string(g.Labels[model.LabelName("__param__hash")]), "%d", &h)
					out = append(out, projGen{Job: job.JobName, H: h})
				}
			}
		}
	}
	sort.Slice(out, func(a, b int) bool {
		return out[a].Job < out[b].Job || (out[a].Job == out[b].Job && out[a].H < out[b].H)
	})
	return out
}

type projGen struct {
	Job string `json:"job"`
	H   uint64 `json:"h"`
}

// ---- payloads ----

// payload renders an exposition body with `kept` samples that survive metric relabeling and
// total-kept samples that the job's metric_relabel_configs drop (label drop="1").  The samples
// are spread over two metric names and every sample has its own label set, so that label
// leakage between rows would change the counts.
// the value of the label `drop` that the metric relabeling rules in force remove ("1" with sideCfgYAML as it stands; a
// replay may reload the configuration with another regular expression)
var payloadDrop = "1"

func payload(kept, total int, seed int64) []byte {
	// samples that metric relabeling drops carry drop="1"; they come before, between and after the kept ones, and the
	// number of labels varies from sample to sample (none, one, two, three), so that whatever is remembered from one
	// sample to the next shows
	var keptL, dropL []string
	n := 0
	for i := 0; i < kept; i++ {
		name := "m_a"
		if i%2 == 1 {
			name = "m_b"
		}
		switch (i + int(seed)) % 3 {
		case 0:
			keptL = append(keptL, fmt.Sprintf("%s{idx=\"%d\",keep=\"yes\"} %d\n", name, n, i+1))
		case 1:
			keptL = append(keptL, fmt.Sprintf("%s{idx=\"%d\"} %d\n", name, n, i+1))
		default:
			if i < 2 {
				keptL = append(keptL, fmt.Sprintf("%s %d\n", name, i+1)) // at most one sample without labels per metric name
			} else {
				keptL = append(keptL, fmt.Sprintf("%s{idx=\"%d\"} %d\n", name, n, i+1))
			}
		}
		n++
	}
	for i := 0; i < total-kept; i++ {
		name := "m_b"
		if i%2 == 1 {
			name = "m_a"
		}
		if (i+int(seed))%2 == 0 {
			dropL = append(dropL, fmt.Sprintf("%s{idx=\"%d\",drop=\"%s\"} %d\n", name, n, payloadDrop, i+1))
		} else {
			dropL = append(dropL, fmt.Sprintf("%s{az=\"z\",idx=\"%d\",drop=\"%s\"} %d\n", name, n, payloadDrop, i+1))
		}
		n++
	}
	var b strings.Builder
	b.WriteString("# HELP m_a test metric\n# TYPE m_a gauge\n")
	for i := 0; i < len(keptL) || i < len(dropL); i++ {
		if i < len(dropL) {
			b.WriteString(dropL[i])
		}
		if i == 1 {
			b.WriteString("\n# a comment line\n")
		}
		if i < len(keptL) {
			b.WriteString(keptL[i])
		}
	}
	return []byte(b.String())
}

// scrapeVia sends one Prometheus-side scrape of hash h (job) through the real proxy.
func (w *sideWorld) scrapeVia(job string, h uint64, addr string) *httptest.ResponseRecorder {
	rec := httptest.NewRecorder()
	u := fmt.Sprintf("http://%s/metrics?_jobName=%s&_hash=%d&_scheme=http", addr, job, h)
	w.proxy.ServeHTTP(rec, httptest.NewRequest("GET", u, nil))
	return rec
}

func targetAddr(h uint64) string { return fmt.Sprintf("10.0.0.%d:9100", h) }

func cleanupDir(d string) { _ = os.RemoveAll(d) }
