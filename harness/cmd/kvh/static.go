package main

// kvh static: the static shard manager on files of replicas / shards; listing before and after scale requests.

import (
	"encoding/json"
	"flag"
	"fmt"
	"os"
	"path/filepath"
	"strings"

	"tkestack.io/kvass/pkg/shard"
	"tkestack.io/kvass/pkg/shard/static"
)

func init() { commands["static"] = cmdStatic }

type stcShard struct {
	ID    string `json:"id"`
	URL   string `json:"url"`
	Ready bool   `json:"ready"`
}

func cmdStatic(args []string) error {
	fs := flag.NewFlagSet("static", flag.ExitOnError)
	in := fs.String("in", "", "cases")
	out := fs.String("out", "", "observations")
	_ = fs.Parse(args)
	wr, err := newNDWriter(*out)
	if err != nil {
		return err
	}
	defer wr.Close()
	dir, err := os.MkdirTemp("", "kvh-static-")
	if err != nil {
		return err
	}
	defer cleanupDir(dir)
	list := func(rm *static.ReplicasManager) ([][]stcShard, []shard.Manager, error) {
		ms, err := rm.Replicas()
		if err != nil {
			return nil, nil, err
		}
		res := [][]stcShard{}
		for _, m := range ms {
			ss, err := m.Shards()
			if err != nil {
				return nil, nil, err
			}
			l := []stcShard{}
			for _, s := range ss {
				// the URL is what requests are sent to: read it through the injectable GET
				u := ""
				s.APIGet = func(url string, ret interface{}) error { u = url; return fmt.Errorf("stop") }
				_, _ = s.RuntimeInfo()
				l = append(l, stcShard{ID: s.ID, URL: strings.TrimSuffix(u, "/api/v1/shard/runtimeinfo/"), Ready: s.Ready})
			}
			res = append(res, l)
		}
		return res, ms, nil
	}
	return readNDJSON(*in, func(line []byte) error {
		var c struct {
			File [][]struct {
				ID  string `json:"id"`
				URL string `json:"url"`
			} `json:"file"`
			Reqs []int32 `json:"reqs"`
		}
		if err := json.Unmarshal(line, &c); err != nil {
			return err
		}
		var b strings.Builder
		b.WriteString("replicas:\n")
		for _, r := range c.File {
			if len(r) == 0 {
				b.WriteString("- shards: []\n")
				continue
			}
			b.WriteString("- shards:\n")
			for _, s := range r {
				fmt.Fprintf(&b, "  - id: %q\n    url: %q\n", s.ID, s.URL)
			}
		}
		f := filepath.Join(dir, "shards.yaml")
		if err := os.WriteFile(f, []byte(b.String()), 0644); err != nil {
			return err
		}
		rm := static.NewReplicasManager(f, quietLog())
		before, ms, err := list(rm)
		if err != nil {
			return err
		}
		nerr := 0
		for i, n := range c.Reqs {
			if len(ms) > 0 {
				if err := ms[i%len(ms)].ChangeScale(n); err != nil {
					nerr++
				}
			}
		}
		after, _, err := list(rm)
		if err != nil {
			return err
		}
		return wr.Write(map[string]interface{}{"file": c.File, "reqs": c.Reqs, "before": before, "after": after, "scaleErrors": nerr})
	})
}
