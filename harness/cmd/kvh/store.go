package main

// kvh store: crash / write-failure points of the sidecar's store.  For every case (previous
// assignment a, new assignment b, byte offset at which writing stops) a child process (this
// binary, `store-child`) runs the real TargetsManager.UpdateTargets(b) on a store directory
// that holds the acknowledged a, under RLIMIT_FSIZE = offset: the kernel lets exactly that many
// bytes of any file be written and then either kills the process (SIGXFSZ) or fails the write
// (EFBIG) - both leave the same bytes on disk.  Afterwards a fresh TargetsManager.Load() is run
// twice (first and second start) and what it resumes is named by comparison with a and b.

import (
	"encoding/json"
	"flag"
	"fmt"
	"os"
	"os/exec"
	"path/filepath"
	"reflect"
	"strings"
	"syscall"
	"time"
	"unsafe"

	"github.com/prometheus/client_golang/prometheus"
	"github.com/prometheus/common/model"
	"github.com/prometheus/prometheus/model/labels"
	"tkestack.io/kvass/pkg/prom"
	"tkestack.io/kvass/pkg/shard"
	"tkestack.io/kvass/pkg/sidecar"
	"tkestack.io/kvass/pkg/target"
)

func init() {
	commands["store"] = cmdStore
	commands["store-child"] = cmdStoreChild
}

type stCase struct {
	A       string `json:"a"`
	B       string `json:"b"`
	NBlocks int    `json:"nblocks"`
	Cut     int    `json:"cut"`
	Bytes   int    `json:"bytes"` // concrete byte offset (-1: derive from cut / nblocks)
	How     string `json:"how"`   // "fail": the write fails (EFBIG); "kill": the process is killed (SIGXFSZ); "cbfail": an update callback (Prometheus reload) fails before anything is written
	Retry   bool   `json:"retry"` // the rejected update is sent again (same process, no fault this time)
}
type stStart struct {
	OK      bool   `json:"ok"`
	Resumed string `json:"resumed"`
	Detail  string `json:"detail,omitempty"`
}
type stObs struct {
	Acked    bool      `json:"acked"`
	Starts   []stStart `json:"starts"`
	FileLen  int       `json:"fileLen"`
	Limit    int       `json:"limit"`
	ChildErr string    `json:"childErr,omitempty"`
}

// concrete assignments
func stAssignment(name string) map[string][]*target.Target {
	mk := func(h uint64, job, addr, state string, series, total int64, extra ...labels.Label) *target.Target {
		ls := labels.Labels{
			{Name: model.AddressLabel, Value: addr},
			{Name: model.InstanceLabel, Value: addr},
			{Name: model.JobLabel, Value: job},
			{Name: model.MetricsPathLabel, Value: "/metrics"},
			{Name: model.SchemeLabel, Value: "http"},
		}
		ls = append(ls, extra...)
		return &target.Target{Hash: h, Labels: ls, Series: series, TotalSeries: total, TargetState: state}
	}
	switch name {
	case "A0":
		return map[string][]*target.Target{}
	case "A1":
		return map[string][]*target.Target{"j1": {mk(11, "j1", "10.0.0.1:9100", "", 7, 9)}}
	case "A2":
		return map[string][]*target.Target{
			"j1": {mk(11, "j1", "10.0.0.1:9100", "in_transfer", 7, 9),
				mk(12, "j1", "10.0.0.2:9100", "", 100, 2000, labels.Label{Name: "note", Value: "quote\" back\\slash \n newline <&> é中文 }{][,:"},
					labels.Label{Name: "ctl", Value: "esc\x1b bel\x07 vt\x0b del\x7f tag\U000e0001 nul-free"})},
			"job/with \"odd\" name": {mk(18446744073709551615, "job/with \"odd\" name", "[fe80::1]:9100", "", 0, 0)},
		}
	case "A3":
		m := map[string][]*target.Target{}
		for i := 0; i < 60; i++ {
			job := fmt.Sprintf("job-%d", i%4)
			st := ""
			if i%7 == 0 {
				st = "in_transfer"
			}
			m[job] = append(m[job], mk(uint64(1000+i), job, fmt.Sprintf("10.1.%d.%d:9100", i/250, i%250), st, int64(i*13), int64(i*29),
				labels.Label{Name: "pod", Value: fmt.Sprintf("pod-%d-%s", i, strings.Repeat("x", i%17))}))
		}
		return m
	case "A4": // A1 moved to another job
		return map[string][]*target.Target{"j2": {mk(11, "j2", "10.0.0.1:9100", "", 7, 9)}}
	case "A5": // A1 with other estimates and state
		return map[string][]*target.Target{"j1": {mk(11, "j1", "10.0.0.1:9100", "in_transfer", 70, 90)}}
	}
	panic("unknown assignment " + name)
}

// a targets manager wired as in a real sidecar: every accepted assignment is handed to the injector, which
// generates the configuration for jobs j1 and j2 only (the assignments name other jobs as well: the coordinator's
// configuration may be ahead of the sidecar's).  The generated file goes to /dev/null, so that the file-size
// limit of a case applies to the store alone.
func stManager(dir string) *sidecar.TargetsManager {
	reg := prometheus.NewRegistry()
	m := sidecar.NewTargetsManager(dir, reg, quietLog())
	inj := sidecar.NewInjector("/dev/null", sidecar.InjectConfigOptions{ProxyURL: "http://127.0.0.1:8008"}, reg, quietLog())
	cm := prom.NewConfigManager()
	cm.AddReloadCallbacks(inj.ApplyConfig)
	if err := cm.ReloadFromRaw([]byte(sideCfgYAML)); err != nil {
		panic(err)
	}
	m.AddUpdateCallbacks(inj.UpdateTargets)
	return m
}

// canonical form of what a manager holds, for comparison
func stCanon(ts map[string][]*target.Target, idle *time.Time) string {
	type ct struct {
		Job    string
		Hash   uint64
		Labels string
		State  string
		Series int64
		Total  int64
	}
	var all []ct
	for job, l := range ts {
		for _, t := range l {
			all = append(all, ct{job, t.Hash, labels.New(t.Labels...).String(), t.TargetState, t.Series, t.TotalSeries}) // label order is immaterial
		}
	}
	// order inside a job matters to nobody; sort
	for i := range all {
		for j := i + 1; j < len(all); j++ {
			if all[j].Job < all[i].Job || (all[j].Job == all[i].Job && all[j].Hash < all[i].Hash) {
				all[i], all[j] = all[j], all[i]
			}
		}
	}
	b, _ := json.Marshal(all)
	return string(b) + fmt.Sprintf("|idle=%d", vclockOf(idle))
}

func cmdStoreChild(args []string) error {
	fs := flag.NewFlagSet("store-child", flag.ExitOnError)
	dir := fs.String("dir", "", "store dir")
	b := fs.String("b", "", "assignment name")
	limit := fs.Int("limit", -1, "RLIMIT_FSIZE in bytes (-1 none)")
	tick := fs.Int64("tick", 0, "virtual clock")
	kill := fs.Bool("kill", false, "let the kernel kill the process when the limit is hit (default disposition of SIGXFSZ)")
	retry := fs.Bool("retry", false, "send the update again after it was rejected")
	cbfail := fs.Bool("cbfail", false, "an update callback fails once")
	_ = fs.Parse(args)
	sidecar.VerifSetClock(vclockNow)
	vclockSet(*tick)
	m := stManager(*dir)
	if err := m.Load(); err != nil {
		fmt.Println("LOADFAIL", err)
		os.Exit(3)
	}
	vclockSet(*tick + 1)
	var old syscall.Rlimit
	_ = syscall.Getrlimit(syscall.RLIMIT_FSIZE, &old)
	if *cbfail {
		failed := false
		m.AddUpdateCallbacks(func(map[string][]*target.Target) error {
			if !failed {
				failed = true
				return fmt.Errorf("scripted: reload failed")
			}
			return nil
		})
	}
	if *limit >= 0 {
		lim := syscall.Rlimit{Cur: uint64(*limit), Max: old.Max}
		if err := syscall.Setrlimit(syscall.RLIMIT_FSIZE, &lim); err != nil {
			fmt.Println("RLIMITFAIL", err)
			os.Exit(4)
		}
		if *kill {
			// the Go runtime ignores SIGXFSZ; restore the default disposition (terminate)
			var sa struct {
				handler  uintptr
				flags    uint64
				restorer uintptr
				mask     uint64
			}
			if _, _, e := syscall.RawSyscall6(syscall.SYS_RT_SIGACTION, uintptr(syscall.SIGXFSZ), uintptr(unsafe.Pointer(&sa)), 0, 8, 0, 0); e != 0 {
				fmt.Println("SIGACTIONFAIL", e)
				os.Exit(4)
			}
		}
	}
	// the rejected-and-repeated updates arrive as the coordinator sends them: through the sidecar's HTTP handler
	cfgm := prom.NewConfigManager()
	sw := &sideWorld{svc: sidecar.NewService("", "http://127.0.0.1:9090", func() (int64, error) { return 0, nil }, cfgm, m, prometheus.NewRegistry(), quietLog())}
	post := func() error {
		if !*retry && !*cbfail {
			return m.UpdateTargets(&shard.UpdateTargetsRequest{Targets: stAssignment(*b)}) // the manager's own entry point
		}
		return sw.apiPost("/api/v1/shard/targets/", &shard.UpdateTargetsRequest{Targets: stAssignment(*b)}, nil)
	}
	err := post()
	if err != nil && *retry {
		fmt.Println("REJECTED", err)
		_ = syscall.Setrlimit(syscall.RLIMIT_FSIZE, &old)
		err = post() // a fresh request with the same content
	}
	if err != nil {
		fmt.Println("NACK", err)
		os.Exit(1)
	}
	fmt.Println("ACK")
	return nil
}

func cmdStore(args []string) error {
	fs := flag.NewFlagSet("store", flag.ExitOnError)
	in := fs.String("in", "", "cases (ndjson)")
	out := fs.String("out", "", "observations (ndjson)")
	_ = fs.Parse(args)
	w, err := newNDWriter(*out)
	if err != nil {
		return err
	}
	defer w.Close()
	sidecar.VerifSetClock(vclockNow)
	self, _ := os.Executable()
	return readNDJSON(*in, func(line []byte) error {
		var rec struct {
			Case stCase                 `json:"case"`
			Out  map[string]interface{} `json:"out"`
		}
		if err := json.Unmarshal(line, &rec); err != nil {
			return err
		}
		o := runStoreCase(self, &rec.Case)
		return w.Write(map[string]interface{}{"case": rec.Case, "out": rec.Out, "obs": o})
	})
}

func runStoreCase(self string, c *stCase) stObs {
	dir, err := os.MkdirTemp("", "kvh-store-")
	if err != nil {
		panic(err)
	}
	defer cleanupDir(dir)
	sd := filepath.Join(dir, "store")
	var o stObs
	// the acknowledged assignment a (tick 1..2), written by the real code
	canonA := ""
	if c.A != "none" {
		vclockSet(1)
		m := stManager(sd)
		if err := m.Load(); err != nil {
			panic(err)
		}
		vclockSet(2)
		if err := m.UpdateTargets(&shard.UpdateTargetsRequest{Targets: stAssignment(c.A)}); err != nil {
			panic(err)
		}
		info := m.TargetsInfo()
		canonA = stCanon(info.Targets, info.IdleAt)
	}
	// what resuming b must look like: the concrete assignment b itself and the idle-since instant the
	// bookkeeping rules give it (never derived from what the code under test wrote)
	var idleB *time.Time
	emptyA, emptyB := len(stAssignment(c.B)) == 0, len(stAssignment(c.B)) == 0
	if c.A != "none" {
		emptyA = len(stAssignment(c.A)) == 0
	}
	if emptyB {
		tick := int64(6) // the update of b empties the assignment at tick 6
		if c.A == "none" {
			tick = 5 // the child's own start (tick 5) found no store: idle since then
		} else if emptyA {
			tick = 1 // a was empty since the very first start
		}
		t := vclockBase.Add(time.Duration(tick) * time.Hour)
		idleB = &t
	}
	canonB := stCanon(stAssignment(c.B), idleB)
	// length of the complete new store file, to place the cut (reference run on a copy, no limit)
	ref := filepath.Join(dir, "ref")
	if c.A != "none" {
		if err := exec.Command("cp", "-r", sd, ref).Run(); err != nil {
			panic(err)
		}
	}
	cmd := exec.Command(self, "store-child", "-dir", ref, "-b", c.B, "-limit", "-1", "-tick", "5")
	if outb, err := cmd.CombinedOutput(); err != nil {
		if strings.Contains(string(outb), "LOADFAIL") {
			// the store that holds the acknowledged a (written by the code under test, no fault) can not be loaded:
			// that is a failing start, not a problem of the harness
			o.ChildErr = strings.TrimSpace(string(outb))
			o.Starts = []stStart{{OK: false, Resumed: "empty", Detail: "start on the store of the acknowledged previous assignment: " + o.ChildErr}, {OK: false, Resumed: "empty"}}
			return o
		}
		if !strings.Contains(string(outb), "NACK") {
			panic(fmt.Sprintf("reference child failed: %v %s", err, outb))
		}
		o.ChildErr = "fault-free update rejected: " + strings.TrimSpace(string(outb))
	}
	if fi, err := os.Stat(filepath.Join(ref, "kvass-shard.json")); err == nil {
		o.FileLen = int(fi.Size())
	}
	if want, _ := json.Marshal(struct {
		Targets map[string][]*target.Target
		IdleAt  *time.Time
	}{stAssignment(c.B), idleB}); len(want) > o.FileLen {
		o.FileLen = len(want)
	}
	// the cut
	limit := -1
	if c.Cut < c.NBlocks {
		if c.Bytes >= 0 {
			limit = c.Bytes
		} else {
			limit = c.Cut * o.FileLen / c.NBlocks
		}
		if limit >= o.FileLen {
			limit = o.FileLen - 1
		}
	}
	o.Limit = limit
	childArgs := []string{"store-child", "-dir", sd, "-b", c.B, "-limit", fmt.Sprint(limit), "-tick", "5"}
	if c.How == "kill" && limit >= 0 {
		childArgs = append(childArgs, "-kill")
	}
	if c.How == "cbfail" {
		childArgs = []string{"store-child", "-dir", sd, "-b", c.B, "-limit", "-1", "-tick", "5", "-cbfail"}
	}
	if c.Retry {
		childArgs = append(childArgs, "-retry")
	}
	cmd = exec.Command(self, childArgs...)
	outb, err := cmd.CombinedOutput()
	o.Acked = err == nil && strings.Contains(string(outb), "\nACK") || strings.HasPrefix(string(outb), "ACK")
	if strings.Contains(string(outb), "NACK") {
		o.Acked = false
	}
	if err != nil {
		o.ChildErr = strings.TrimSpace(string(outb))
		if len(o.ChildErr) > 200 {
			o.ChildErr = o.ChildErr[:200]
		}
		if o.ChildErr == "" {
			o.ChildErr = err.Error()
		}
	}
	// two starts
	for i := 0; i < 2; i++ {
		vclockSet(int64(9 + i))
		m := stManager(sd)
		if i == 0 && (c.Cut+c.Bytes+len(c.A)+len(c.B))%2 == 0 {
			// at the first start the shard's Prometheus is not up yet (the usual order in a pod): the reload the
			// start asks for fails; what is resumed is the same
			m.AddUpdateCallbacks(func(map[string][]*target.Target) error { return fmt.Errorf("scripted: prometheus is not up") })
		}
		st := stStart{}
		if err := m.Load(); err != nil {
			st.OK = false
			st.Resumed = "empty"
			st.Detail = err.Error()
		} else {
			st.OK = true
			info := m.TargetsInfo()
			got := stCanon(info.Targets, info.IdleAt)
			n := 0
			for _, l := range info.Targets {
				n += len(l)
			}
			switch {
			case got == canonB:
				st.Resumed = c.B
			case c.A != "none" && got == canonA:
				st.Resumed = c.A
			case n == 0:
				st.Resumed = "empty"
			default:
				st.Resumed = "other"
				st.Detail = got
				if len(st.Detail) > 300 {
					st.Detail = st.Detail[:300]
				}
			}
			// the status map must describe the same targets (C09: resumes ... state and estimates)
			if !stStatusMatches(info) {
				st.Resumed = "other"
				st.Detail = "status map does not match the resumed targets"
			}
		}
		o.Starts = append(o.Starts, st)
	}
	return o
}

func stStatusMatches(info sidecar.TargetsInfo) bool {
	want := map[uint64][3]interface{}{}
	for _, l := range info.Targets {
		for _, t := range l {
			want[t.Hash] = [3]interface{}{t.TargetState, t.Series, t.TotalSeries}
		}
	}
	got := map[uint64][3]interface{}{}
	for h, s := range info.Status {
		got[h] = [3]interface{}{s.TargetState, s.Series, s.TotalSeries}
	}
	return reflect.DeepEqual(want, got)
}
