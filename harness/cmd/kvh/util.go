package main

import (
	"bufio"
	"encoding/json"
	"io"
	"os"
	"sync"

	"github.com/sirupsen/logrus"
)

// quietLog returns a logger that discards everything.
func quietLog() *logrus.Logger {
	l := logrus.New()
	l.SetOutput(io.Discard)
	l.SetLevel(logrus.PanicLevel)
	return l
}

// readNDJSON calls f for every line of file.
func readNDJSON(file string, f func(line []byte) error) error {
	fd, err := os.Open(file)
	if err != nil {
		return err
	}
	defer fd.Close()
	rd := bufio.NewReaderSize(fd, 1<<20)
	for {
		line, err := rd.ReadBytes('\n')
		if len(line) > 1 {
			if e := f(line); e != nil {
				return e
			}
		}
		if err == io.EOF {
			return nil
		}
		if err != nil {
			return err
		}
	}
}

// ndWriter writes one JSON value per line, safe for concurrent use.
type ndWriter struct {
	mu sync.Mutex
	w  *bufio.Writer
	f  *os.File
}

func newNDWriter(file string) (*ndWriter, error) {
	f, err := os.Create(file)
	if err != nil {
		return nil, err
	}
	return &ndWriter{w: bufio.NewWriterSize(f, 1<<20), f: f}, nil
}

func (n *ndWriter) Write(v interface{}) error {
	b, err := json.Marshal(v)
	if err != nil {
		return err
	}
	n.mu.Lock()
	defer n.mu.Unlock()
	n.w.Write(b)
	return n.w.WriteByte('\n')
}

func (n *ndWriter) Close() error {
	n.mu.Lock()
	defer n.mu.Unlock()
	if err := n.w.Flush(); err != nil {
		return err
	}
	return n.f.Close()
}

// copyJSON converts between JSON-compatible values.
func copyJSON(dst, src interface{}) error {
	b, err := json.Marshal(src)
	if err != nil {
		return err
	}
	return json.Unmarshal(b, dst)
}
