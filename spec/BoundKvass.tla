------------------------------ MODULE BoundKvass ------------------------------
(* "... reaches within a bounded number of cycles" (C03, C06) with the bound made explicit.  At any idle moment the    *)
(* world may enter the quiet tail: from then on nothing changes from outside and no fault happens, and time passes in  *)
(* rounds - every probe that is due, one coordination cycle, three scrape rounds on every shard (the shape of the       *)
(* quiet tail of the closed-loop runs on the real code).  Bounded: after Bound rounds the world is converged.  TLC       *)
(* checks it from every reachable state of the bounded model, every order of the coordinator's internal steps.            *)
EXTENDS Kvass

CONSTANT Bound
VARIABLES quiet,    \* -1: not in the tail; else completed rounds (counted up to Bound)
          phase,    \* "free" | "probe" | "cycle" | "incycle" | "scrape"
          slot      \* scrape slot 1 .. 3 * MaxN within a round
bvars == <<allvars, quiet, phase, slot>>

BInit == KInit /\ quiet = -1 /\ phase = "free" /\ slot = 0

Free == quiet = -1 /\ KNext /\ UNCHANGED <<quiet, phase, slot>>
Enter == /\ quiet = -1 /\ pc = "idle"
         /\ quiet' = 0 /\ phase' = "probe" /\ slot' = 0 /\ UNCHANGED allvars

ProbeDue(t) == t \in disc /\ ~(est[t].known /\ est[t].health = "up") /\ alive[t]     \* (a probe of a target that is down changes nothing that matters)
TProbe == /\ phase = "probe"
          /\ IF \E t \in Targets : ProbeDue(t)
               THEN (\E t \in Targets : ProbeDue(t) /\ Probe(t)) /\ UNCHANGED <<quiet, phase, slot>>
               ELSE phase' = "cycle" /\ UNCHANGED <<allvars, quiet, slot>>
TStart == phase = "cycle" /\ StartCycle(NoFaults) /\ phase' = "incycle" /\ UNCHANGED <<quiet, slot>>
TStep  == phase = "incycle" /\ CycleStep /\ UNCHANGED <<quiet, phase, slot>>
TEnd   == phase = "incycle" /\ EndCycle /\ phase' = "scrape" /\ slot' = 1 /\ UNCHANGED quiet
ShardOf(s) == ((s - 1) % MaxN) + 1
TScrape ==
  /\ phase = "scrape"
  /\ IF slot > 3 * MaxN
       THEN /\ quiet' = (IF quiet < Bound THEN quiet + 1 ELSE quiet) /\ phase' = "probe" /\ slot' = 0 /\ UNCHANGED allvars
       ELSE /\ slot' = slot + 1 /\ UNCHANGED <<quiet, phase>>
            /\ IF ENABLED ScrapeRound(ShardOf(slot)) THEN ScrapeRound(ShardOf(slot)) ELSE UNCHANGED allvars

BNext == Free \/ Enter \/ TProbe \/ TStart \/ TStep \/ TEnd \/ TScrape
BSpec == BInit /\ [][BNext]_bvars

ConvergedInTime == quiet >= Bound => Converged
\* compact view for counterexamples
BriefB == [pc |-> pc, quiet |-> quiet, phase |-> phase, slot |-> slot, nsh |-> nsh, disc |-> disc, size |-> size, alive |-> alive, est |-> est,
           shards |-> [i \in 1..nsh |-> [h \in DOMAIN sc[i].status |-> <<sc[i].status[h].state, sc[i].status[h].health, sc[i].status[h].times,
                                                                        sc[i].status[h].series>>]],
           loaded |-> [i \in 1..nsh |-> LoadedH(sc[i])]]
=============================================================================
