------------------------------ MODULE ConfigSync ------------------------------
(***************************************************************************)
(* Configuration synchronisation between the coordinator and its shards       *)
(* (pkg/prom/config.go ConfigHash, pkg/coordinator/rebalance.go                 *)
(* getOneShardInfo, pkg/sidecar/service.go updateConfig / runtimeInfo).          *)
(* A configuration is a function from setting classes to versions, plus          *)
(* external labels and formatting, which must not matter.  The hash sees the      *)
(* classes in HashView - which is MEASURED on the real code by the harness         *)
(* (every single-leaf edit of a catalogue configuration).                          *)
(*   CoordReload(c)   the coordinator reloads a configuration edited in class c     *)
(*   CoordCosmetic    ... re-formatted or with other external labels                *)
(*   Cycle(i)         one coordination cycle for shard i: compare hashes, push the    *)
(*                    raw content if they differ, re-read, decide "in sync"           *)
(*   PushLost(i)      as Cycle, but the push is rejected / lost                       *)
(***************************************************************************)
EXTENDS Integers, FiniteSets

CONSTANTS Classes, HashView, Shards, MaxVersion

VARIABLES coord,     \* [set: class -> version, cosmetic: version]
          shardCfg,  \* shard -> same
          verdict    \* shard -> "insync" | "outofsync": what the last cycle since the coordinator's last
                     \* reload made of the shard ("none": no cycle yet since then)

vars == <<coord, shardCfg, verdict>>

Hash(cfg) == [c \in HashView |-> cfg.set[c]]          \* cosmetic changes are never hashed
Same(a, b) == a.set = b.set                              \* the same configuration, up to cosmetics

Init == /\ coord = [set |-> [c \in Classes |-> 0], cosmetic |-> 0]
        /\ shardCfg = [i \in Shards |-> coord]
        /\ verdict = [i \in Shards |-> "none"]

CoordReload(c) == /\ coord.set[c] < MaxVersion
                  /\ coord' = [coord EXCEPT !.set[c] = @ + 1]
                  /\ verdict' = [i \in Shards |-> "none"]
                  /\ UNCHANGED shardCfg
CoordCosmetic == /\ coord.cosmetic < MaxVersion
                 /\ coord' = [coord EXCEPT !.cosmetic = @ + 1]
                 /\ UNCHANGED <<shardCfg, verdict>>
Cycle(i) ==
  /\ IF Hash(shardCfg[i]) # Hash(coord)
       THEN shardCfg' = [shardCfg EXCEPT ![i] = coord]      \* push accepted, re-read hash matches
       ELSE UNCHANGED shardCfg
  /\ verdict' = [verdict EXCEPT ![i] = "insync"]
  /\ UNCHANGED coord
PushLost(i) ==
  /\ Hash(shardCfg[i]) # Hash(coord)
  /\ verdict' = [verdict EXCEPT ![i] = "outofsync"]
  /\ UNCHANGED <<coord, shardCfg>>

Next == (\E c \in Classes : CoordReload(c)) \/ CoordCosmetic \/ \E i \in Shards : Cycle(i) \/ PushLost(i)
Spec == Init /\ [][Next]_vars

(* C16: a shard that a cycle treated as in sync runs the coordinator's configuration *)
InSyncIsTruthful == \A i \in Shards : verdict[i] = "insync" => Same(shardCfg[i], coord)
\* and a shard that runs it is never treated as out of sync
NoFalseOutOfSync == \A i \in Shards : verdict[i] = "outofsync" => ~Same(shardCfg[i], coord)
=============================================================================
