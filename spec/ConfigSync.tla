------------------------------ MODULE ConfigSync ------------------------------
(***************************************************************************)
(* Configuration synchronisation between the coordinator and its shards       *)
(* (pkg/prom/config.go ConfigHash, pkg/coordinator/rebalance.go                 *)
(* getOneShardInfo, pkg/sidecar/service.go updateConfig / runtimeInfo).          *)
(* A configuration is a function from setting classes to versions, plus          *)
(* external labels and formatting, which must not matter.  The hash sees the      *)
(* classes in HashView - which is MEASURED on the real code by the harness         *)
(* (every single-leaf edit of a catalogue configuration).                          *)
(*   CoordReload(c)   the coordinator reloads a configuration edited in class c     *)
(*   CoordCosmetic    ... re-formatted or with other external labels                *)
(*   Cycle(i)         one coordination cycle for shard i: compare hashes, push the    *)
(*                    raw content if they differ, re-read, decide "in sync"           *)
(*   PushLost(i)      as Cycle, but the push is rejected / lost                       *)
(*   PushRefused(i)   as Cycle, but the shard answers the push with an error because a   *)
(*                    reload callback failed (Prometheus did not take the generated file)  *)
(***************************************************************************)
EXTENDS Integers, FiniteSets

CONSTANTS Classes, HashView, Shards, MaxVersion

VARIABLES coord,     \* [set: class -> version, cosmetic: version]
          shardCfg,  \* shard -> same: the configuration the sidecar holds (and hashes)
          file,      \* shard -> same: the configuration the generated file of the shard was last written from
          runs,      \* shard -> same: the configuration the shard's Prometheus was last reloaded with
          verdict    \* shard -> "insync" | "outofsync": what the last cycle since the coordinator's last
                     \* reload made of the shard ("none": no cycle yet since then)

vars == <<coord, shardCfg, file, runs, verdict>>

Hash(cfg) == [c \in HashView |-> cfg.set[c]]          \* cosmetic changes are never hashed
Same(a, b) == a.set = b.set                              \* the same configuration, up to cosmetics

Init == /\ coord = [set |-> [c \in Classes |-> 0], cosmetic |-> 0]
        /\ shardCfg = [i \in Shards |-> coord]
        /\ runs = [i \in Shards |-> coord] /\ file = [i \in Shards |-> coord]
        /\ verdict = [i \in Shards |-> "none"]

\* (any other version: an edit, or an edit taken back)
CoordReload(c) == /\ \E v \in 0..MaxVersion : v # coord.set[c] /\ coord' = [coord EXCEPT !.set[c] = v]
                  /\ verdict' = [i \in Shards |-> "none"]
                  /\ UNCHANGED <<shardCfg, file, runs>>
CoordCosmetic == /\ coord.cosmetic < MaxVersion
                 /\ coord' = [coord EXCEPT !.cosmetic = @ + 1]
                 /\ UNCHANGED <<shardCfg, file, runs, verdict>>
Cycle(i) ==
  /\ IF Hash(shardCfg[i]) # Hash(coord)
       THEN /\ shardCfg' = [shardCfg EXCEPT ![i] = coord]      \* push accepted, re-read hash matches
            /\ file' = [file EXCEPT ![i] = coord] /\ runs' = [runs EXCEPT ![i] = coord]
       ELSE UNCHANGED <<shardCfg, file, runs>>
  /\ verdict' = [verdict EXCEPT ![i] = "insync"]
  /\ UNCHANGED coord
PushLost(i) ==
  /\ Hash(shardCfg[i]) # Hash(coord)
  /\ verdict' = [verdict EXCEPT ![i] = "outofsync"]
  /\ UNCHANGED <<coord, shardCfg, file, runs>>
\* RefusedKeepsOld (the repaired tree): a configuration whose callbacks failed is not the one the sidecar holds and
\* hashes.  FALSE (the pinned tree): the sidecar has taken it over before running the callbacks, and reports its hash.
RefusedKeepsOld == TRUE
PushRefused(i) ==
  /\ Hash(shardCfg[i]) # Hash(coord)
  /\ shardCfg' = IF RefusedKeepsOld THEN shardCfg ELSE [shardCfg EXCEPT ![i] = coord]
  \* (the failing callback is the last one, the reload: the file has been written from the new configuration; the repaired
  \* tree runs the callbacks again with the previous configuration, which writes the file from it again)
  /\ file' = IF RefusedKeepsOld THEN file ELSE [file EXCEPT ![i] = coord]
  /\ verdict' = [verdict EXCEPT ![i] = "outofsync"]
  /\ UNCHANGED <<coord, runs>>
\* any later reload that succeeds (a targets update) makes Prometheus run what the generated file says
LaterReload(i) == runs' = [runs EXCEPT ![i] = file[i]] /\ UNCHANGED <<coord, shardCfg, file, verdict>>

Next == (\E c \in Classes : CoordReload(c)) \/ CoordCosmetic \/ \E i \in Shards : Cycle(i) \/ PushLost(i) \/ PushRefused(i) \/ LaterReload(i)
Spec == Init /\ [][Next]_vars

(* C16: a shard that a cycle treated as in sync runs the coordinator's configuration *)
InSyncIsTruthful == \A i \in Shards : verdict[i] = "insync" => Same(shardCfg[i], coord) /\ Same(runs[i], coord)
\* and a shard that runs it is never treated as out of sync
NoFalseOutOfSync == \A i \in Shards : verdict[i] = "outofsync" => ~(Same(shardCfg[i], coord) /\ Same(runs[i], coord))
=============================================================================
