------------------------------- MODULE CoordAPI -------------------------------
(***************************************************************************)
(* The coordinator's query API (pkg/coordinator/service.go): what a user or a   *)
(* dashboard sees of the sharded system - GET /api/v1/targets (Prometheus         *)
(* compatible, extended by series, totalSeries, shards and by the query params      *)
(* state, statistics, job, health) and GET /api/v1/runtimeinfo - as functions of    *)
(* a world w:                                                                       *)
(*   jobs    sequence of [name, active, dropped]: the discovery's active and         *)
(*           dropped targets per job (sequences of target ids, in discovery order)   *)
(*   order   all job names in lexicographic order (the API lists jobs by name)          *)
(*   status  sequence of [id, health, series, total, shards]: the global scrape        *)
(*           status the coordinator published in its last cycle (C19: per replica      *)
(*           merged); a target without entry is reported unknown with no shard         *)
(* and a query q:                                                                     *)
(*   state       "" | "any" | "active" | "dropped" | anything else                     *)
(*   statistics  "" | "only" | "with" | anything else (rejected)                       *)
(*   jobs        sequence of patterns; a pattern is [re, ok, matches]: its text,        *)
(*               whether it compiles, and the set of job names it matches (the           *)
(*               regular-expression semantics are Go's, the harness passes `re')         *)
(*   health      sequence of health values to keep in the list                         *)
(***************************************************************************)
EXTENDS Integers, Sequences, FiniteSets, SequencesExt

Rng(s) == {s[k] : k \in DOMAIN s}
RECURSIVE SumSeries(_)
SumSeries(S) == IF S = {} THEN 0 ELSE LET x == CHOOSE y \in S : TRUE IN x.series + SumSeries(S \ {x})
RECURSIVE SumTotal(_)
SumTotal(S) == IF S = {} THEN 0 ELSE LET x == CHOOSE y \in S : TRUE IN x.total + SumTotal(S \ {x})

HasStatus(w, id) == \E s \in Rng(w.status) : s.id = id
StatusOf(w, id) ==
  IF HasStatus(w, id) THEN CHOOSE s \in Rng(w.status) : s.id = id
  ELSE [id |-> id, health |-> "unknown", series |-> 0, total |-> 0, shards |-> <<>>]

\* jobs in the order the API lists them: by name
\* (TLC has no order on strings: the world carries `order', the lexicographic order of all job names in play)
JobOrder(w) == SelectSeq(w.order, LAMBDA n : \E j \in Rng(w.jobs) : j.name = n)
JobOf(w, n) == CHOOSE j \in Rng(w.jobs) : j.name = n
JobPasses(q, n) == Len(q.jobs) = 0 \/ \E p \in Rng(q.jobs) : n \in p.matches
HealthPasses(q, h) == Len(q.health) = 0 \/ h \in Rng(q.health)

Rejected(q) == q.statistics \notin {"", "only", "with"} \/ \E p \in Rng(q.jobs) : ~p.ok

RECURSIVE Cat(_)
Cat(ss) == IF ss = <<>> THEN <<>> ELSE Head(ss) \o Cat(Tail(ss))

Entry(w, n, id) == LET s == StatusOf(w, id) IN
  [job |-> n, id |-> id, health |-> s.health, series |-> s.series, total |-> s.total, shards |-> s.shards]
ActiveList(w, q) ==
  Cat([k \in DOMAIN JobOrder(w) |->
         LET n == JobOrder(w)[k] IN
         IF ~JobPasses(q, n) THEN <<>>
         ELSE SelectSeq([i \in DOMAIN JobOf(w, n).active |-> Entry(w, n, JobOf(w, n).active[i])],
                        LAMBDA e : HealthPasses(q, e.health))])
Count(w, n, h) == Cardinality({i \in DOMAIN JobOf(w, n).active : StatusOf(w, JobOf(w, n).active[i]).health = h})
Statistics(w, q) ==
  LET names == SelectSeq(JobOrder(w), LAMBDA n : JobPasses(q, n))
  IN [k \in DOMAIN names |-> [job |-> names[k], total |-> Len(JobOf(w, names[k]).active),
                              up |-> Count(w, names[k], "up"), down |-> Count(w, names[k], "down"), unknown |-> Count(w, names[k], "unknown")]]
DroppedList(w) == Cat([k \in DOMAIN JobOrder(w) |-> JobOf(w, JobOrder(w)[k]).dropped])

Targets(w, q) ==
  IF Rejected(q) THEN [error |-> TRUE, active |-> <<>>, stats |-> <<>>, dropped |-> <<>>]
  ELSE LET showActive  == q.state \in {"", "any", "active"}
           showDropped == q.state \in {"", "any", "dropped"}
       IN [error   |-> FALSE,
           active  |-> IF showActive /\ q.statistics # "only" THEN ActiveList(w, q) ELSE <<>>,
           stats   |-> IF q.statistics # "" THEN Statistics(w, q) ELSE <<>>,
           dropped |-> IF showDropped /\ q.statistics # "only" THEN DroppedList(w) ELSE <<>>]

RuntimeInfo(w) == [head |-> SumSeries(Rng(w.status)), proc |-> SumTotal(Rng(w.status))]

-----------------------------------------------------------------------------
(* what a user relies on (evaluated on the real answers by CoordAPIEval) *)
AllActive(w) == UNION {Rng(j.active) : j \in Rng(w.jobs)}
\* the unfiltered view lists every discovered target exactly once, with the health and the shards of its status
G_Complete(w, q, a) ==
  (q.state \in {"", "any", "active"} /\ q.statistics \in {"", "with"} /\ Len(q.jobs) = 0 /\ Len(q.health) = 0 /\ ~a.error) =>
     /\ \A j \in Rng(w.jobs) : \A i \in DOMAIN j.active :
           Cardinality({k \in DOMAIN a.active : a.active[k].job = j.name /\ a.active[k].id = j.active[i]})
             = Cardinality({i2 \in DOMAIN j.active : j.active[i2] = j.active[i]})
     /\ \A k \in DOMAIN a.active : LET e == a.active[k] s == StatusOf(w, e.id) IN
           e.health = s.health /\ e.shards = s.shards /\ e.series = s.series /\ e.total = s.total
\* the health filter keeps exactly the targets of that health
G_Health(w, q, a) == (~a.error /\ Len(q.health) > 0) => \A k \in DOMAIN a.active : a.active[k].health \in Rng(q.health)
\* statistics count all active targets of the job, whatever the health filter
G_Stats(w, q, a) == (~a.error /\ q.statistics # "") =>
  \A k \in DOMAIN a.stats : LET s == a.stats[k] IN
     s.total = Len(JobOf(w, s.job).active) /\ s.up + s.down + s.unknown = s.total
Guarantees(w, q, a) ==
  (IF ~G_Complete(w, q, a) THEN {"unfiltered-view-incomplete-or-wrong"} ELSE {})
  \cup (IF ~G_Health(w, q, a) THEN {"health-filter"} ELSE {})
  \cup (IF ~G_Stats(w, q, a) THEN {"statistics"} ELSE {})
=============================================================================
