----------------------------- MODULE CoordAPIEval -----------------------------
(* Conformance and guarantees of the coordinator's query API on real answers:    *)
(* obs.ndjson holds, per case, the world, the query, and what the real service     *)
(* answered (targets, runtime).                                                     *)
EXTENDS CoordAPI, TLC, Json, IOUtils
Obs == ndJsonDeserialize("obs.ndjson")
Q(k) == LET q == Obs[k].q IN [q EXCEPT !.jobs = [i \in DOMAIN q.jobs |-> [re |-> q.jobs[i].re, ok |-> q.jobs[i].ok, matches |-> Rng(q.jobs[i].matches)]]]
Ans(k) == LET a == Obs[k].targets IN [error |-> a.error, active |-> a.active, stats |-> a.stats, dropped |-> a.dropped]
Differs(k) == Ans(k) # Targets(Obs[k].w, Q(k)) \/ Obs[k].runtime # RuntimeInfo(Obs[k].w)
Viol == UNION {{[idx |-> k, which |-> w] : w \in Guarantees(Obs[k].w, Q(k), Ans(k)) \cup (IF Obs[k].mutated THEN {"query-changes-the-discovery-lists"} ELSE {})} : k \in DOMAIN Obs}
ASSUME ndJsonSerialize("viol.ndjson", SetToSeq(Viol))
ASSUME ndJsonSerialize("differs.ndjson", SetToSeq({[idx |-> k] : k \in {k \in DOMAIN Obs : Differs(k)}}))
=============================================================================
