------------------------------- MODULE Discovery -------------------------------
(***************************************************************************)
(* The coordinator's view of discovered targets (pkg/discovery/discovery.go   *)
(* TargetsDiscovery: translateTargets, ApplyConfig, the getters; the channel    *)
(* to the explorer and pkg/explore/explore.go UpdateTargets / ApplyConfig as    *)
(* wired in cmd/kvass/coordinator.go), as functions over an explicit state d:   *)
(*   cfg      set of configured jobs                                            *)
(*   active   function: job -> set of target ids (only jobs that have received   *)
(*            an update since they were configured)                              *)
(*   dropped  same, for targets dropped by relabeling                            *)
(*   q        updates translated but not yet consumed by the explorer            *)
(*   table    the explorer's table: set of <<job, id>>                           *)
(* An SD update is a function from jobs to a sequence of groups; a group is       *)
(* [bad, members]: members = set of [id, drop]; a bad group holds one more         *)
(* instance that can not be built (invalid address): that instance is reported      *)
(* and skipped, the members are kept - as Prometheus does (BadDropsGroup = TRUE is    *)
(* the behaviour before fix 77b6f2d: the group was skipped as a whole).               *)
(***************************************************************************)
EXTENDS Integers, Sequences, FiniteSets

Rng(s) == {s[k] : k \in DOMAIN s}
Restrict(f, S) == [x \in S |-> f[x]]

Init0 == [cfg |-> {}, active |-> <<>>, dropped |-> <<>>, q |-> <<>>, table |-> {}]

BadDropsGroup == FALSE
Kept(groups)  == UNION {{m.id : m \in {m \in g.members : ~m.drop}} : g \in {g \in Rng(groups) : BadDropsGroup => ~g.bad}}
Drops(groups) == UNION {{m.id : m \in {m \in g.members : m.drop}} : g \in {g \in Rng(groups) : BadDropsGroup => ~g.bad}}

(* translateTargets: per job of the update that is configured, the sets are replaced *)
Translate(d, S) ==
  LET js == DOMAIN S \cap d.cfg
      act == [j \in js |-> Kept(S[j])]
  IN [d EXCEPT !.active  = [j \in (DOMAIN d.active) \cup js |-> IF j \in js THEN Kept(S[j]) ELSE d.active[j]],
               !.dropped = [j \in (DOMAIN d.dropped) \cup js |-> IF j \in js THEN Drops(S[j]) ELSE d.dropped[j]],
               !.q = Append(@, act)]

(* the explorer consumes one update: its table becomes exactly that update's targets *)
Consume(d) ==
  IF d.q = <<>> THEN d
  ELSE LET u == Head(d.q)
       IN [d EXCEPT !.table = UNION {{<<j, i>> : i \in u[j]} : j \in DOMAIN u}, !.q = Tail(@)]

(* a configuration reload (callbacks in the order registered): explorer pruned by job, the  *)
(* discovery keeps the entries of the jobs that remain                                       *)
Reload(d, J) ==
  [d EXCEPT !.cfg = J,
            !.table = {e \in @ : e[1] \in J},
            !.active = Restrict(@, DOMAIN @ \cap J),
            !.dropped = Restrict(@, DOMAIN @ \cap J)]

(* what the getters expose, in the shape the harness records it *)
Proj(d) ==
  [active  |-> [j \in DOMAIN d.active |-> d.active[j]],
   dropped |-> [j \in DOMAIN d.dropped |-> d.dropped[j]],
   table   |-> d.table]
=============================================================================
