----------------------------- MODULE DiscoveryEval -----------------------------
(* Trace validation for C17.  obs.ndjson: per behaviour the operations and, in the   *)
(* sequential part, the projected real state after every step (plus whether every      *)
(* snapshot handed out earlier was still unchanged at the end); in the concurrent      *)
(* part, the reads taken by reader goroutines, each with the window of operation        *)
(* counts during which it ran.  The operations are folded through the operators of      *)
(* Discovery.tla; a sequential state must equal the specification's, a concurrent read   *)
(* must equal the specification's value in one of the states of its window              *)
(* (linearisability of the getters w.r.t. updates and reloads).                          *)
EXTENDS Discovery, TLC, Json, IOUtils, SequencesExt

Obs == ndJsonDeserialize("obs.ndjson")

UpdOf(s) == [j \in {u.job : u \in Rng(s.upd)} |->
               LET u == CHOOSE x \in Rng(s.upd) : x.job = j
               IN [g \in DOMAIN u.groups |-> [bad |-> u.groups[g].bad, members |-> Rng(u.groups[g].members)]]]
Apply(d, s) == CASE s.a = "Send" -> Translate(d, UpdOf(s))
                 [] s.a = "Consume" -> Consume(d)
                 [] s.a = "Reload" -> Reload(d, Rng(s.jobs))

SetsOf(seq) == {<<x.job, Rng(x.ids)>> : x \in Rng(seq)}
ModelSets(f) == {<<j, f[j]>> : j \in DOMAIN f}
Diff(d, r) ==
  (IF ModelSets(d.active) # SetsOf(r.active) THEN {"active"} ELSE {})
  \cup (IF ModelSets(d.dropped) # SetsOf(r.dropped) THEN {"dropped"} ELSE {})
  \cup (IF d.table # {<<e.job, e.id>> : e \in Rng(r.table)} THEN {"explorer-table"} ELSE {})
  \cup (IF ~r.byHashOK THEN {"by-hash"} ELSE {})
  \cup (IF ~r.stampOK THEN {"labels-of-another-configuration"} ELSE {})

RECURSIVE Walk(_, _, _, _)
Walk(id, d, steps, k) ==
  IF k > Len(steps) THEN {}
  ELSE LET d2 == Apply(d, steps[k])
           df == Diff(d2, steps[k].post)
           \* queries of the coordinator's API (filtered by health, with statistics, dropped only) are reads: no step of the specification
           dr == IF "postRead" \in DOMAIN steps[k] THEN Diff(d2, steps[k].postRead) ELSE {}
       IN IF df # {} THEN {[id |-> id, k |-> k, a |-> steps[k].a, fields |-> df]}
          ELSE IF dr # {} THEN {[id |-> id, k |-> k, a |-> "api-read", fields |-> {"state-changed-by-a-read"} \cup dr]}
          ELSE Walk(id, d2, steps, k + 1)

\* states s_0 .. s_n of a behaviour
RECURSIVE States(_, _, _)
States(d, steps, k) == IF k > Len(steps) THEN <<d>> ELSE <<d>> \o States(Apply(d, steps[k]), steps, k + 1)
ReadBad(sts, r) ==
  LET lo == r.b \div 2                      \* operations completed before the read began
      hi == (r.a + 1) \div 2                \* operations begun before the read ended
      ok(k) == IF r.op = "active" THEN ModelSets(sts[k + 1].active) = SetsOf(r.val)
               ELSE ModelSets(sts[k + 1].dropped) = SetsOf(r.val)
  IN ~\E k \in lo..hi : ok(k)

SeqT == {i \in DOMAIN Obs : "reads" \notin DOMAIN Obs[i]}
Conc == {i \in DOMAIN Obs : "reads" \in DOMAIN Obs[i]}
Viol ==
  UNION {Walk(Obs[i].id, Init0, Obs[i].steps, 1) : i \in SeqT}
  \cup {[id |-> Obs[i].id, k |-> 0, a |-> "snapshot", fields |-> {"snapshot-changed"}] : i \in {i \in SeqT : ~Obs[i].snapshotsStable}}
  \cup UNION {LET sts == States(Init0, Obs[i].steps, 1)
              IN {[id |-> Obs[i].id, k |-> r.b, a |-> "read", fields |-> {"read-not-linearisable"}, read |-> r] :
                     r \in {r \in Rng(Obs[i].reads) : ReadBad(sts, r)}} : i \in Conc}
NReads == LET RECURSIVE C(_)
              C(S) == IF S = {} THEN 0 ELSE LET i == CHOOSE x \in S : TRUE IN Len(Obs[i].reads) + C(S \ {i})
          IN C(Conc)
ASSUME ndJsonSerialize("viol.ndjson", SetToSeq(Viol))
ASSUME ndJsonSerialize("evalstats.ndjson", <<[traces |-> Cardinality(SeqT), concurrent |-> Cardinality(Conc), reads |-> NReads]>>)
=============================================================================
