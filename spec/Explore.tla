------------------------------- MODULE Explore -------------------------------
(***************************************************************************)
(* Probe scheduling of the coordinator's explorer (pkg/explore/explore.go):   *)
(* the table of discovered targets, first lookup, the queue to the workers,     *)
(* probes in flight, retry timers, discovery updates that remove / keep /       *)
(* re-add a target.  Entries are OBJECTS: a target that is removed and          *)
(* discovered again gets a new entry object, while a pending retry still holds   *)
(* the old one - the code re-enqueues the object it holds.                       *)
(*                                                                             *)
(* Constants (what the current /repo does is pinned by the check):               *)
(*   ProbeChecksIdentity  a queued or retried entry is probed only if the table   *)
(*                        still holds that very entry (FALSE: retries check only  *)
(*                        that some entry for the hash exists, queued entries are *)
(*                        probed unconditionally)                                 *)
(*   FailureMarksDown     a failed probe records health down (FALSE: the deferred *)
(*                        SetScrapeErr sees a nil error and records health up)    *)
(***************************************************************************)
EXTENDS Integers, Sequences, FiniteSets

CONSTANTS Targets, Workers, MaxFails, MaxObjs, ProbeChecksIdentity, FailureMarksDown,
          Record      \* keep the event history (FALSE for liveness checking: finite state space)

VARIABLES table,    \* t -> object id of the current entry (only discovered targets)
          st,       \* object id -> [t, exploring, health, probed (a probe succeeded), est]
          nobj,     \* objects created so far
          queue,    \* sequence of object ids waiting for a worker
          busy,     \* worker -> [o: object being probed (0: idle), under: the table's entry for its
                    \*            target when the probe was started (0: the target was not discovered)]
          timers,   \* set of object ids with a retry pending
          fails,    \* failures so far (bounds the model)
          info,     \* the scrape manager has client and settings of the targets' job (it skips a job whose
                    \* HTTP client cannot be built, e.g. a missing CA file, until a reload repairs it)
          hist      \* sequence of events, for the history formulas and for export

vars == <<table, st, nobj, queue, busy, timers, fails, info, hist>>

Ev(k, t, x) == [ev |-> k, t |-> t, x |-> x]
Idle == [o |-> 0, under |-> 0]
H(e) == IF Record THEN Append(hist, e) ELSE hist

Init ==
  /\ table = <<>> /\ st = <<>> /\ nobj = 0 /\ queue = <<>>
  /\ busy = [w \in Workers |-> Idle] /\ timers = {} /\ fails = 0 /\ info = TRUE /\ hist = <<>>

(* discovery update: the table becomes exactly S; entries of kept targets are kept *)
Update(S) ==
  /\ nobj + Cardinality(S \ DOMAIN table) <= MaxObjs
  /\ LET new == S \ DOMAIN table
         ord == CHOOSE f \in [new -> (nobj + 1)..(nobj + Cardinality(new))] : \A a, b \in new : a # b => f[a] # f[b]
     IN /\ table' = [t \in S |-> IF t \in DOMAIN table THEN table[t] ELSE ord[t]]
        /\ st' = [o \in (DOMAIN st) \cup {ord[t] : t \in new} |->
                    IF o \in DOMAIN st THEN st[o]
                    ELSE [t |-> CHOOSE t \in new : ord[t] = o, exploring |-> FALSE, health |-> "unknown", probed |-> FALSE, est |-> 0]]
        /\ nobj' = nobj + Cardinality(new)
  /\ hist' = H(Ev("update", 0, S))
  /\ UNCHANGED <<queue, busy, timers, fails, info>>

(* the coordinator asks for the estimate: first lookup enqueues the entry *)
Get(t) ==
  /\ t \in DOMAIN table
  /\ LET o == table[t] IN
     /\ IF st[o].exploring THEN UNCHANGED <<st, queue>>
        ELSE st' = [st EXCEPT ![o].exploring = TRUE] /\ queue' = Append(queue, o)
     /\ hist' = H(Ev("get", t, [health |-> st[o].health, est |-> st[o].est]))
  /\ UNCHANGED <<table, nobj, busy, timers, fails, info>>

(* a worker takes the next entry; it sends the probe - unless the entry is stale and the code checks, *)
(* or the job's scrape info is missing: then the attempt fails at once, without a request            *)
Dequeue(w) ==
  /\ busy[w].o = 0 /\ queue # <<>>
  /\ LET o == Head(queue)
         t == st[o].t
         cur == IF t \in DOMAIN table THEN table[t] ELSE 0
     IN IF ProbeChecksIdentity /\ cur # o
          THEN /\ hist' = H(Ev("skip-stale", t, o)) /\ UNCHANGED <<busy, st, timers, fails>>
        ELSE IF ~info
          THEN /\ fails < MaxFails
               /\ st' = [st EXCEPT ![o].health = IF FailureMarksDown THEN "down" ELSE "up"]
               /\ timers' = timers \cup {o} /\ fails' = fails + 1
               /\ hist' = H(Ev("probe-noinfo", t, o)) /\ UNCHANGED busy
        ELSE /\ busy' = [busy EXCEPT ![w] = [o |-> o, under |-> cur]]
             /\ hist' = H(Ev("probe-start", t, o)) /\ UNCHANGED <<st, timers, fails>>
  /\ queue' = Tail(queue)
  /\ UNCHANGED <<table, nobj, info>>

(* a reload breaks / repairs the job's scrape info *)
ToggleInfo ==
  /\ info' = ~info
  /\ hist' = H(Ev("info", 0, ~info))
  /\ UNCHANGED <<table, st, nobj, queue, busy, timers, fails>>

(* a reload changes the job's metric relabel rules (its HTTP client settings stay): probes that start afterwards *)
(* count under the new rules - the estimate is always that of the probe that succeeded                          *)
ToggleRules ==
  /\ Record /\ hist' = H(Ev("rules", 0, TRUE))
  /\ UNCHANGED <<table, st, nobj, queue, busy, timers, fails, info>>

ProbeOK(w) ==
  /\ busy[w].o # 0
  /\ LET o == busy[w].o IN
     /\ st' = [st EXCEPT ![o].health = "up", ![o].probed = TRUE, ![o].est = 1]
     /\ hist' = H(Ev("probe-ok", st[o].t, o))
  /\ busy' = [busy EXCEPT ![w] = Idle]
  /\ UNCHANGED <<table, nobj, queue, timers, fails, info>>

ProbeFail(w) ==
  /\ busy[w].o # 0 /\ fails < MaxFails
  /\ LET o == busy[w].o IN
     /\ st' = [st EXCEPT ![o].health = IF FailureMarksDown THEN "down" ELSE "up"]
     /\ timers' = timers \cup {o}
     /\ hist' = H(Ev("probe-fail", st[o].t, o))
  /\ busy' = [busy EXCEPT ![w] = Idle] /\ fails' = fails + 1
  /\ UNCHANGED <<table, nobj, queue, info>>

(* the retry interval has passed *)
TimerFire(o) ==
  /\ o \in timers
  /\ timers' = timers \ {o}
  /\ LET t == st[o].t
         again == IF ProbeChecksIdentity THEN t \in DOMAIN table /\ table[t] = o ELSE t \in DOMAIN table
     IN queue' = IF again THEN Append(queue, o) ELSE queue
  /\ hist' = H(Ev("timer", st[o].t, o))
  /\ UNCHANGED <<table, st, nobj, busy, fails, info>>

Next ==
  \/ \E S \in SUBSET Targets : Update(S)
  \/ \E t \in Targets : Get(t)
  \/ \E w \in Workers : Dequeue(w) \/ ProbeOK(w) \/ ProbeFail(w)
  \/ \E o \in timers : TimerFire(o)
  \/ ToggleInfo \/ ToggleRules

Spec == Init /\ [][Next]_vars
\* liveness is stated for a job whose scrape info stays available
NextInfoOn == Next /\ info' = info
Fair == Init /\ [][NextInfoOn]_vars /\ WF_vars(\E w \in Workers : Dequeue(w)) /\ WF_vars(\E o \in timers : TimerFire(o))
             /\ WF_vars(\E w \in Workers : ProbeOK(w))

-----------------------------------------------------------------------------
(* C20 on the model.  "Per target" is read per discovery of the target: a probe that was started *)
(* before the target was removed may still be in flight when the target has been discovered      *)
(* again and is probed anew (nothing can recall a request that is under way).                    *)
Busy == {w \in Workers : busy[w].o # 0}
AtMostOneInFlight ==
  \A w1, w2 \in Busy : (w1 # w2 /\ st[busy[w1].o].t = st[busy[w2].o].t) => busy[w1].under # busy[w2].under
\* probes are only started for targets that are discovered at that moment, and for their current entry
NoProbeAfterRemoval == \A w \in Busy : busy[w].under = busy[w].o
\* no probe is started for a target whose current entry has already been probed successfully
NoProbeAfterSuccess ==
  [][\A w \in Workers : (busy[w].o = 0 /\ busy'[w].o # 0) =>
        LET t == st[busy'[w].o].t IN ~(t \in DOMAIN table /\ st[table[t]].probed)]_vars
\* a probe is only started for an entry somebody asked for
NoProbeBeforeGet == \A w \in Busy : st[busy[w].o].exploring
\* what the coordinator is handed: healthy only after a successful probe, with that probe's counts
EstimateIsSuccessfulProbe ==
  \A t \in DOMAIN table : LET e == st[table[t]] IN
     /\ (e.health = "up" => e.probed /\ e.est = 1)
     /\ (~e.probed => e.est = 0)
\* a failed probe of a still-discovered entry is followed by another probe of the target
FailedIsRetried ==
  \A t \in Targets :
     (\E o \in timers : st[o].t = t /\ t \in DOMAIN table /\ table[t] = o)
        ~> ((\E w \in Busy : st[busy[w].o].t = t) \/ t \notin DOMAIN table)
=============================================================================
