------------------------------ MODULE ExploreEval ------------------------------
EXTENDS ExploreProps, TLC, Json, IOUtils, SequencesExt
Obs == ndJsonDeserialize("obs.ndjson")
Kept  == [t \in 1..9 |-> 2 + t]
Total == [t \in 1..9 |-> 5 + 2 * t]
Viol == UNION {{[id |-> Obs[k].id, sig |-> v] : v \in C20(Obs[k].events, Kept, Total, 10 * Obs[k].retryMs)} : k \in DOMAIN Obs}
NonTrivial == Cardinality({k \in DOMAIN Obs : \E e \in {Obs[k].events[i] : i \in DOMAIN Obs[k].events} : e.ev = "probe-end" /\ ~e.ok})
ASSUME ndJsonSerialize("viol.ndjson", SetToSeq(Viol))
ASSUME ndJsonSerialize("evalstats.ndjson", <<[histories |-> Len(Obs), nontrivial |-> NonTrivial]>>)
=============================================================================
