----------------------------- MODULE ExploreLock -----------------------------
(***************************************************************************)
(* The explorer's lock and queue (pkg/explore/explore.go): the table of       *)
(* discovered targets is protected by one mutex; first lookups (Get, called    *)
(* by the coordinator for every target of a cycle) and retry goroutines put     *)
(* entries into a BOUNDED channel; every worker takes an entry from the channel   *)
(* and - since the identity check of fix 646ca66 - looks it up in the table,       *)
(* which needs the mutex.  The question this module decides: can lookups and        *)
(* workers block each other for ever?                                               *)
(*                                                                                 *)
(*   SendUnderLock = TRUE   an entry is put into the channel while the mutex is     *)
(*                          held (Get and the retry goroutine as they were)          *)
(*   SendUnderLock = FALSE  the decision is taken under the mutex, the channel        *)
(*                          operation happens after it was released                   *)
(* With SendUnderLock = TRUE TLC finds the deadlock: channel full, the next Get        *)
(* holds the mutex and waits for room, every worker has taken an entry and waits        *)
(* for the mutex.                                                                       *)
(***************************************************************************)
EXTENDS Integers, FiniteSets

CONSTANTS Workers, QueueCap, NLookups, NRetries, SendUnderLock

VARIABLES lock,     \* "free" or who holds the mutex
          queue,    \* entries in the channel
          gpc, left,      \* the coordinator's loop over the targets of a cycle: gpc \in idle / locked / sending
          wpc,            \* worker -> recv / check / probe
          retries, rpc    \* retries still to come; retry goroutine: none / locked / sending
vars == <<lock, queue, gpc, left, wpc, retries, rpc>>

Init == /\ lock = "free" /\ queue = 0 /\ gpc = "idle" /\ left = NLookups
        /\ wpc = [w \in Workers |-> "recv"] /\ retries = NRetries /\ rpc = "none"

(* Get *)
GLock == gpc = "idle" /\ left > 0 /\ lock = "free" /\ lock' = "get" /\ gpc' = "locked" /\ UNCHANGED <<queue, left, wpc, retries, rpc>>
GSendLocked == /\ gpc = "locked" /\ SendUnderLock /\ queue < QueueCap
               /\ queue' = queue + 1 /\ lock' = "free" /\ gpc' = "idle" /\ left' = left - 1 /\ UNCHANGED <<wpc, retries, rpc>>
GUnlock == gpc = "locked" /\ ~SendUnderLock /\ lock' = "free" /\ gpc' = "sending" /\ UNCHANGED <<queue, left, wpc, retries, rpc>>
GSend == gpc = "sending" /\ queue < QueueCap /\ queue' = queue + 1 /\ gpc' = "idle" /\ left' = left - 1 /\ UNCHANGED <<lock, wpc, retries, rpc>>

(* a worker *)
WRecv(w)  == wpc[w] = "recv" /\ queue > 0 /\ queue' = queue - 1 /\ wpc' = [wpc EXCEPT ![w] = "check"] /\ UNCHANGED <<lock, gpc, left, retries, rpc>>
WCheck(w) == wpc[w] = "check" /\ lock = "free" /\ wpc' = [wpc EXCEPT ![w] = "probe"] /\ UNCHANGED <<lock, queue, gpc, left, retries, rpc>>   \* lock; look up; unlock
WProbe(w) == wpc[w] = "probe" /\ wpc' = [wpc EXCEPT ![w] = "recv"] /\ UNCHANGED <<lock, queue, gpc, left, retries, rpc>>

(* a retry goroutine after a failed probe (one at a time in this model) *)
RLock == rpc = "none" /\ retries > 0 /\ lock = "free" /\ lock' = "retry" /\ rpc' = "locked" /\ retries' = retries - 1 /\ UNCHANGED <<queue, gpc, left, wpc>>
RSendLocked == rpc = "locked" /\ SendUnderLock /\ queue < QueueCap /\ queue' = queue + 1 /\ lock' = "free" /\ rpc' = "none" /\ UNCHANGED <<gpc, left, wpc, retries>>
RUnlock == rpc = "locked" /\ ~SendUnderLock /\ lock' = "free" /\ rpc' = "sending" /\ UNCHANGED <<queue, gpc, left, wpc, retries>>
RSend == rpc = "sending" /\ queue < QueueCap /\ queue' = queue + 1 /\ rpc' = "none" /\ UNCHANGED <<lock, gpc, left, wpc, retries>>

AllDone == left = 0 /\ gpc = "idle" /\ queue = 0 /\ retries = 0 /\ rpc = "none" /\ \A w \in Workers : wpc[w] = "recv"
Next == \/ GLock \/ GSendLocked \/ GUnlock \/ GSend
        \/ \E w \in Workers : WRecv(w) \/ WCheck(w) \/ WProbe(w)
        \/ RLock \/ RSendLocked \/ RUnlock \/ RSend
        \/ AllDone /\ UNCHANGED vars
Spec == Init /\ [][Next]_vars
Fair == Spec /\ WF_vars(Next)

TypeOK == queue \in 0..QueueCap /\ lock \in {"free", "get", "retry"} /\ left \in 0..NLookups
\* (deadlock freedom is TLC's own check: CHECK_DEADLOCK TRUE)
EventuallyDone == <>AllDone
=============================================================================
