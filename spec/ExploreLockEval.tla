--------------------------- MODULE ExploreLockEval ---------------------------
(* The flood run of the real explorer (kvh explore-flood) against what ExploreLock.tla   *)
(* shows for the repaired protocol: every lookup returns and every target is probed.      *)
EXTENDS Integers, Sequences, TLC, Json, IOUtils
Obs == ndJsonDeserialize("flood.ndjson")
Bad(o) == (IF o.stalled THEN {"lookups-and-workers-block-each-other"} ELSE {})
          \cup (IF ~o.stalled /\ (o.lookupsReturned < o.n \/ o.probed < o.n) THEN {"not-finished"} ELSE {})
Viol == UNION {{[idx |-> k, which |-> w] : w \in Bad(Obs[k])} : k \in DOMAIN Obs}
ASSUME ndJsonSerialize("floodviol.ndjson", IF Viol = {} THEN <<>> ELSE <<CHOOSE v \in Viol : TRUE>>)
=============================================================================
