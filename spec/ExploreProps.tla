----------------------------- MODULE ExploreProps -----------------------------
(* C20 as formulas over a recorded history E of one run of the explorer: a sequence  *)
(* of events [seq, ms, ev, t, set, pid, ok, found, health, series, total] with         *)
(*   update      a discovery update (set = the targets now discovered)                 *)
(*   get         a lookup of t and the status handed to the coordinator                *)
(*   probe-start a probe request for t arrived at the target (pid identifies it)        *)
(*   probe-end   that probe completed (ok: it succeeded)                                *)
(*   info        the job's scrape info became unavailable / available (ok)              *)
(* "Per target" is read per discovery of the target (see Explore.tla): the epoch of t    *)
(* at position i is the position of the update that (re)discovered it.                   *)
EXTENDS Integers, Sequences, FiniteSets

LOCAL R(s) == {s[k] : k \in DOMAIN s}
Idx(E) == DOMAIN E
Updates(E, i) == {k \in Idx(E) : k <= i /\ E[k].ev = "update"}
LastUpd(E, i) == IF Updates(E, i) = {} THEN 0 ELSE CHOOSE k \in Updates(E, i) : \A m \in Updates(E, i) : m <= k
Discovered(E, i, t) == LastUpd(E, i) # 0 /\ t \in R(E[LastUpd(E, i)].set)
\* position of the update that discovered t for the epoch containing i (0: not discovered at i)
Epoch(E, i, t) ==
  IF ~Discovered(E, i, t) THEN 0
  ELSE LET adds == {k \in Updates(E, i) : t \in R(E[k].set) /\ (LastUpd(E, k - 1) = 0 \/ t \notin R(E[LastUpd(E, k - 1)].set))}
       IN CHOOSE k \in adds : \A m \in adds : m <= k
Starts(E, t) == {i \in Idx(E) : E[i].ev = "probe-start" /\ E[i].t = t}
EndOf(E, i)  == LET S == {j \in Idx(E) : E[j].ev = "probe-end" /\ E[j].pid = E[i].pid} IN IF S = {} THEN Len(E) + 1 ELSE CHOOSE j \in S : TRUE
Succ(E, t)   == {j \in Idx(E) : E[j].ev = "probe-end" /\ E[j].t = t /\ E[j].ok}
StartOf(E, j) == CHOOSE i \in Idx(E) : E[i].ev = "probe-start" /\ E[i].pid = E[j].pid
\* for how long (ms, up to the end of the history) the job's scrape info has been available without interruption
InfoEvents(E) == {i \in Idx(E) : E[i].ev = "info"}
InfoOnFor(E) == IF InfoEvents(E) = {} THEN E[Len(E)].ms
                ELSE LET k == CHOOSE i \in InfoEvents(E) : \A m \in InfoEvents(E) : m <= i
                     IN IF E[k].ok THEN E[Len(E)].ms - E[k].ms ELSE -1
Ts(E) == {E[i].t : i \in {i \in Idx(E) : E[i].ev \in {"probe-start", "get"}}}

\* expected counts of a successful probe of t are fixed by the harness payloads
C20(E, kept, total, deadlineMs) ==
  \* at most one probe in flight per (discovery of a) target
  {[f |-> "two-probes-in-flight", t |-> t, at |-> i] : <<t, i>> \in
      {<<t, i>> \in Ts(E) \X Idx(E) : i \in Starts(E, t) /\ \E k \in Starts(E, t) :
           k < i /\ EndOf(E, k) > i /\ Epoch(E, k, t) = Epoch(E, i, t)}}
  \* no probe of a target that is not discovered
  \cup {[f |-> "probe-of-undiscovered-target", t |-> t, at |-> i] : <<t, i>> \in
      {<<t, i>> \in Ts(E) \X Idx(E) : i \in Starts(E, t) /\ ~Discovered(E, i, t)
           \* a request that arrives within 10 ms of the update may have been started before it
           /\ E[i].ms - E[LastUpd(E, i)].ms > 10}}
  \* no probe after a success (same discovery)
  \cup {[f |-> "probe-after-success", t |-> t, at |-> i] : <<t, i>> \in
      {<<t, i>> \in Ts(E) \X Idx(E) : i \in Starts(E, t) /\ Discovered(E, i, t) /\
           \E j \in Succ(E, t) : j < i /\ Epoch(E, StartOf(E, j), t) = Epoch(E, i, t)}}
  \* probed only once it was asked for
  \cup {[f |-> "probe-before-lookup", t |-> t, at |-> i] : <<t, i>> \in
      {<<t, i>> \in Ts(E) \X Idx(E) : i \in Starts(E, t) /\ Discovered(E, i, t) /\
           ~\E g \in Idx(E) : g < i /\ E[g].ev = "get" /\ E[g].t = t /\ E[g].found /\ Epoch(E, g, t) = Epoch(E, i, t)}}
  \* the status handed out: healthy / non-zero estimate only from a successful probe of this discovery, with its counts
  \cup {[f |-> "estimate-without-successful-probe", t |-> t, at |-> g, health |-> E[g].health, series |-> E[g].series] : <<t, g>> \in
      {<<t, g>> \in Ts(E) \X Idx(E) : E[g].ev = "get" /\ E[g].t = t /\ E[g].found /\
           (E[g].health = "up" \/ E[g].series # 0 \/ E[g].total # 0) /\
           ~\E j \in Succ(E, t) : j < g /\ Epoch(E, StartOf(E, j), t) = Epoch(E, g, t)}}
  \cup {[f |-> "estimate-differs-from-probe", t |-> t, at |-> g, series |-> E[g].series, total |-> E[g].total] : <<t, g>> \in
      {<<t, g>> \in Ts(E) \X Idx(E) : E[g].ev = "get" /\ E[g].t = t /\ E[g].found /\
           \* (the counts a successful probe must give are recorded with its completion: they depend on the metric
           \* relabel rules in force when it started)
           LET js == {j \in Succ(E, t) : j < g /\ Epoch(E, StartOf(E, j), t) = Epoch(E, g, t)} IN
           js # {} /\ (E[g].health # "up" \/ ~\E j \in js : E[g].total = E[j].total /\
                                      (E[g].series = E[j].series \/ (Len(E[j].set) > 0 /\ E[g].series = E[j].set[1])))}}
  \* every discovered target is probed once it is asked for (judged when the job's scrape info has been
  \* available, and the lookup past, for at least the deadline)
  \cup {[f |-> "looked-up-target-never-probed", t |-> t, at |-> g] : <<t, g>> \in
      {<<t, g>> \in Ts(E) \X Idx(E) : E[g].ev = "get" /\ E[g].t = t /\ E[g].found /\
           Epoch(E, g, t) # 0 /\ Epoch(E, Len(E), t) = Epoch(E, g, t) /\
           InfoOnFor(E) >= deadlineMs /\ E[Len(E)].ms - E[g].ms >= deadlineMs /\
           ~\E i \in Starts(E, t) : Epoch(E, i, t) = Epoch(E, g, t)}}
  \* a failed probe is retried while the target stays discovered (judged only when the history is long enough)
  \cup {[f |-> "failed-probe-not-retried", t |-> t, at |-> j] : <<t, j>> \in
      {<<t, j>> \in Ts(E) \X Idx(E) : E[j].ev = "probe-end" /\ E[j].t = t /\ ~E[j].ok /\
           Epoch(E, StartOf(E, j), t) # 0 /\ Epoch(E, Len(E), t) = Epoch(E, StartOf(E, j), t) /\
           E[Len(E)].ms - E[j].ms >= deadlineMs /\ InfoOnFor(E) >= deadlineMs /\
           ~\E i \in Starts(E, t) : i > j}}
=============================================================================
