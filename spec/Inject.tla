-------------------------------- MODULE Inject --------------------------------
(***************************************************************************)
(* The secrets of the configuration the sidecar generates                     *)
(* (pkg/sidecar/injector.go: inject, injectJobs, marshal).  The generated file  *)
(* is the parsed configuration marshalled back to YAML - which masks every      *)
(* secret as "<secret>" - followed by a restoration step.  A configuration is    *)
(* abstracted to the sequence of its secret SLOTS in the order in which they      *)
(* appear in the marshalled file (global - alerting - scrape jobs - remote write   *)
(* - remote read):                                                                *)
(*   [sec, key, val]  sec: "alerting" | "job" | "rw" | "rr"; key: the YAML key the *)
(*                    placeholder appears under ("password", "bearer_token",        *)
(*                    "credentials", "client_secret"); val: the secret's value       *)
(* Scrape jobs lose basic auth and bearer token (the proxy authenticates); their      *)
(* other secrets stay masked.  Everything outside the scrape jobs must keep its        *)
(* secrets.                                                                           *)
(*   Mode = "ordered-text": passwords / bearer tokens of remote write then remote      *)
(*          read are written back by replacing the FIRST remaining occurrence of        *)
(*          "<key>: <secret>" in the text, whatever section it is in; a bearer_token     *)
(*          has been normalised to authorization.credentials by the parser and is        *)
(*          not in the list of tokens.                                                   *)
(*   Mode = "verbatim": the non-scrape sections are taken over from the original          *)
(*          configuration as they are.                                                    *)
(***************************************************************************)
EXTENDS Integers, Sequences, FiniteSets

CONSTANTS Mode

\* the slots as they appear in the marshalled file: the parser has turned bearer_token into credentials
Parsed(slots) == [k \in DOMAIN slots |-> IF slots[k].key = "bearer_token" THEN [slots[k] EXCEPT !.key = "credentials"] ELSE slots[k]]
\* injectJobs: jobs lose password and bearer token slots
\* (clearing the job's bearer_token has no effect: the parser has already moved it to authorization.credentials,
\* which stays in the job, masked)
AfterInject(slots) == SelectSeq(Parsed(slots), LAMBDA s : ~(s.sec = "job" /\ s.key = "password"))
Masked(slots) == [k \in DOMAIN slots |-> [slots[k] EXCEPT !.val = "<secret>"]]

\* ordered first-occurrence replacement of one key
RECURSIVE ReplaceFirst(_, _, _)
ReplaceFirst(slots, key, v) ==
  IF slots = <<>> THEN <<>>
  ELSE IF Head(slots).key = key /\ Head(slots).val = "<secret>"
         THEN <<[Head(slots) EXCEPT !.val = v]>> \o Tail(slots)
         ELSE <<Head(slots)>> \o ReplaceFirst(Tail(slots), key, v)
RECURSIVE ReplaceAll(_, _, _)
ReplaceAll(slots, key, vals) == IF vals = <<>> THEN slots ELSE ReplaceAll(ReplaceFirst(slots, key, Head(vals)), key, Tail(vals))

\* what the code collects: bearer tokens (none survive parsing) and basic-auth passwords of remote write, then remote read
Collected(slots, key) ==
  LET rw == SelectSeq(Parsed(slots), LAMBDA s : s.sec = "rw" /\ s.key = key)
      rr == SelectSeq(Parsed(slots), LAMBDA s : s.sec = "rr" /\ s.key = key)
  IN [k \in DOMAIN (rw \o rr) |-> (rw \o rr)[k].val]

Generated(slots) ==
  LET m == Masked(AfterInject(slots)) IN
  IF Mode = "ordered-text"
    THEN ReplaceAll(ReplaceAll(m, "bearer_token", Collected(slots, "bearer_token")), "password", Collected(slots, "password"))
    ELSE [k \in DOMAIN m |-> IF m[k].sec = "job" THEN m[k] ELSE [m[k] EXCEPT !.val = AfterInject(slots)[k].val]]

(* C11, the part about secrets *)
SecretsPreserved(slots) ==
  LET g == Generated(slots)
      a == AfterInject(slots)
  IN \A k \in DOMAIN g : g[k].sec # "job" => g[k].val = a[k].val
NoJobSecretInFile(slots) ==
  \A k \in DOMAIN Generated(slots) : Generated(slots)[k].sec = "job" => Generated(slots)[k].val = "<secret>"
=============================================================================
