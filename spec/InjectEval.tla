------------------------------ MODULE InjectEval ------------------------------
(* Verdict step of C11: the formulas over what was found in the generated file,   *)
(* loaded back with Prometheus' own loader and compared with the original.        *)
EXTENDS Integers, Sequences, FiniteSets, TLC, Json, IOUtils, SequencesExt
Obs == ndJsonDeserialize("obs.ndjson")
C11(o) ==
  (IF ~o.loads THEN {"generated-file-does-not-load"} ELSE {})
  \cup (IF o.loads /\ ~o.jobsSameOrder THEN {"jobs-or-order-changed"} ELSE {})
  \cup (IF Len(o.jobProblems) > 0 THEN {"job-setting-wrong"} ELSE {})
  \cup (IF Len(o.jobSecretLeak) > 0 THEN {"scrape-job-secret-in-file"} ELSE {})
  \cup (IF Len(o.sectionsDiffer) > 0 THEN {"non-scrape-section-not-preserved"} ELSE {})
Viol == UNION {{[n |-> Obs[k].n, which |-> w] : w \in C11(Obs[k].obs)} : k \in DOMAIN Obs}
ASSUME ndJsonSerialize("viol.ndjson", SetToSeq(Viol))
ASSUME ndJsonSerialize("evalstats.ndjson", <<[cases |-> Len(Obs)]>>)
=============================================================================
