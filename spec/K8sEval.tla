------------------------------- MODULE K8sEval -------------------------------
EXTENDS K8sProps, TLC, Json, IOUtils, SequencesExt
Obs == ndJsonDeserialize("obs.ndjson")
Viol == UNION {{[idx |-> k, which |-> w] : w \in C18(Obs[k].case, Obs[k].obs)} : k \in DOMAIN Obs}
ASSUME ndJsonSerialize("viol.ndjson", SetToSeq(Viol))
ASSUME ndJsonSerialize("evalstats.ndjson", <<[cases |-> Len(Obs),
   nontrivial |-> Cardinality({k \in DOMAIN Obs :
        \/ Obs[k].case.kind = "scale" /\ Obs[k].case.n # Obs[k].case.replicas
        \/ Obs[k].case.kind = "list" /\ Len(Obs[k].case.pods) > 1
        \/ Obs[k].case.kind \in {"replicas", "replicaseq"}})]>>)
=============================================================================
