------------------------------- MODULE K8sProps -------------------------------
(* C18 as formulas over a case and what was observed on the fake clientset.        *)
EXTENDS Integers, Sequences, FiniteSets
LOCAL R(s) == {s[k] : k \in DOMAIN s}

\* list case: pods = sequence of [ord, ip] as returned by the API; obs.shards = sequence of [ord, ip, ready]
\* (ord parsed from the shard ID, -1 if it has none).  Judged when the pods are exactly ordinals 0..n-1.
WellFormed(pods) == {p.ord : p \in R(pods)} = 0..(Len(pods) - 1)
C18_List(c, o) ==
  IF ~WellFormed(c.pods) THEN {}
  ELSE (IF Len(o.shards) # Len(c.pods) THEN {"number-of-shards"} ELSE {})
       \cup {"order-or-fields" : k \in {k \in DOMAIN o.shards \cap DOMAIN c.pods :
                LET p == CHOOSE x \in R(c.pods) : x.ord = k - 1
                IN o.shards[k].ord # k - 1 \/ o.shards[k].ip # p.ip \/ o.shards[k].ready # (p.ip # 0)}}

\* scale case
C18_Scale(c, o) ==
  LET expectGone == IF c.flag /\ c.n < c.replicas /\ c.replicas # -1 /\ ~c.updfail
                      THEN {x \in R(c.pvcs) : x.tpl \in 1..c.ntpl /\ x.ord >= c.n /\ x.ord < c.replicas} ELSE {}
      gone == R(c.pvcs) \ R(o.pvcs)
      stays == IF c.updfail THEN c.replicas ELSE c.n      \* shards that exist afterwards
  IN (IF c.replicas # -1 /\ o.replicas # stays THEN {"replica-count"} ELSE {})
     \cup (IF \E x \in gone : x.ord < stays THEN {"deleted-claim-of-remaining-shard"} ELSE {})
     \cup (IF gone # expectGone /\ ~\E x \in gone : x.ord < stays THEN {"wrong-claims-deleted"} ELSE {})
     \cup (IF (c.replicas = c.n \/ c.replicas = -1) /\ o.writes # 0 THEN {"write-when-unchanged"} ELSE {})
     \cup (IF R(o.pvcs) \ R(c.pvcs) # {} THEN {"claims-appeared"} ELSE {})

\* replicas case: sets = sequence of [name, replicas, updated, ready]; obs.managers = sequence of names
C18_Replicas(c, o) ==
  {"rolling-update-coordinated" : s \in {s \in R(c.sets) : s.replicas # s.updated /\ s.name \in R(o.managers)}}
  \cup {"ready-set-not-coordinated" : s \in {s \in R(c.sets) : s.replicas = s.updated /\ s.ready = s.replicas /\ s.name \notin R(o.managers)}}

\* the same over time (steps = sequence of [st, adv]; obs.coordinated = what each call of Replicas() said): never while
\* a rolling update is seen - however long it lasts -, always when updated and ready
C18_ReplicaSeq(c, o) ==
  {"rolling-update-coordinated" : k \in {k \in DOMAIN c.steps \cap DOMAIN o.coordinated : c.steps[k].st.replicas # c.steps[k].st.updated /\ o.coordinated[k]}}
  \cup {"ready-set-not-coordinated" : k \in {k \in DOMAIN c.steps \cap DOMAIN o.coordinated :
           c.steps[k].st.replicas = c.steps[k].st.updated /\ c.steps[k].st.ready = c.steps[k].st.replicas /\ ~o.coordinated[k]}}
  \cup (IF Len(o.coordinated) # Len(c.steps) THEN {"calls-missing"} ELSE {})

C18(c, o) == CASE c.kind = "list" -> C18_List(c, o)
               [] c.kind = "scale" -> C18_Scale(c, o)
               [] c.kind = "replicas" -> C18_Replicas(c, o)
               [] c.kind = "replicaseq" -> C18_ReplicaSeq(c, o)
=============================================================================
