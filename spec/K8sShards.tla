------------------------------ MODULE K8sShards ------------------------------
(***************************************************************************)
(* The Kubernetes shard manager (pkg/shard/kubernetes): listing the shards of *)
(* a StatefulSet from its pods, changing the scale with optional deletion of   *)
(* the volume claims of removed ordinals, and selecting the StatefulSets that   *)
(* are coordinated.  Operators over explicit state, used by the model           *)
(* (MCK8sShards enumerates the cases) and to predict / judge what the real       *)
(* manager does on a client-go fake clientset.                                  *)
(*                                                                            *)
(* A pod is [ord, ip] (ip = 0: no address yet); a volume claim is [tpl, ord].   *)
(***************************************************************************)
EXTENDS Integers, Sequences, FiniteSets

Rng(s) == {s[k] : k \in DOMAIN s}

(* Shards(): position k (0-based) is the pod named <set>-k, wherever it is in the list the API *)
(* returned; a missing pod gives an unready shard without identity; the number of shards is    *)
(* the number of pods listed.                                                                  *)
ListShards(pods) ==
  [k \in 1..Len(pods) |->
     LET m == {p \in Rng(pods) : p.ord = k - 1}
     IN IF m = {} THEN [ord |-> -1, ip |-> 0, ready |-> FALSE]
        ELSE LET p == CHOOSE x \in m : TRUE IN [ord |-> p.ord, ip |-> p.ip, ready |-> p.ip # 0]]

(* ChangeScale(n) on a StatefulSet with `replicas' (-1: spec.replicas unset), volume claim      *)
(* templates 1..ntpl and existing claims pvcs.                                                  *)
ScaleResult(replicas, ntpl, pvcs, flag, n, updfail) ==
  IF replicas = -1 \/ replicas = n
    THEN [replicas |-> replicas, pvcs |-> pvcs, updates |-> 0, deleted |-> {}]
  ELSE IF updfail   \* the API server rejects the update (conflict): nothing else happens
    THEN [replicas |-> replicas, pvcs |-> pvcs, updates |-> 1, deleted |-> {}]
    ELSE LET gone == IF flag THEN {c \in pvcs : c.tpl \in 1..ntpl /\ c.ord >= n /\ c.ord < replicas} ELSE {}
         IN [replicas |-> n, pvcs |-> pvcs \ gone, updates |-> 1, deleted |-> gone]

(* Replicas(): a StatefulSet is coordinated unless its rolling update is in progress; one that *)
(* is not fully ready is held back for the first two minutes only (first sight: held back).     *)
Coordinated(st) == st.replicas = st.updated /\ st.ready = st.replicas
HeldBackAtFirstSight(st) == st.replicas = st.updated /\ st.ready # st.replicas

(* Replicas() over time, for one StatefulSet: mem is the instant it was first seen not ready (-1: nothing      *)
(* remembered; the instant is forgotten whenever a rolling update is seen, and kept otherwise), now the time in  *)
(* minutes.  Result: [coordinated, mem].                                                                          *)
ReplicasStep(mem, st, now) ==
  IF st.replicas # st.updated THEN [coordinated |-> FALSE, mem |-> -1]
  ELSE IF st.ready # st.replicas
    THEN LET m == IF mem = -1 THEN now ELSE mem
         IN [coordinated |-> now - m >= 2, mem |-> m]
  ELSE [coordinated |-> TRUE, mem |-> mem]
RECURSIVE ReplicasSeq(_, _, _, _)
ReplicasSeq(mem, now, steps, k) ==      \* steps[k] = [st, adv]: adv minutes pass, then Replicas() sees st
  IF k > Len(steps) THEN <<>>
  ELSE LET r == ReplicasStep(mem, steps[k].st, now + steps[k].adv)
       IN <<r.coordinated>> \o ReplicasSeq(r.mem, now + steps[k].adv, steps, k + 1)
=============================================================================
