-------------------------------- MODULE Kvass --------------------------------
(***************************************************************************)
(* The closed loop of one replica: the sidecars of the shards (Sidecar.tla    *)
(* state records, one per ordinal), the StatefulSet scale, the coordinator     *)
(* cycle (the actions of Rebalance.tla, step by step, fed from what the         *)
(* sidecars report and applied to them), the simulated Prometheus instances      *)
(* (scrape rounds through the proxy), discovery, the explorer's estimates, the    *)
(* targets themselves (size, up / down), the clock, and faults.                   *)
(*                                                                             *)
(* Environment and fault actions happen between cycles (pc = "idle"); inside a    *)
(* cycle only the coordinator's own steps run: planning is local computation and   *)
(* the requests of one cycle are issued within milliseconds.                      *)
(***************************************************************************)
EXTENDS Rebalance

S == INSTANCE Sidecar

CONSTANTS Targets, MaxN,          \* universe of targets; largest number of shards
          KOpts,                   \* the coordinator's options (record as in Rebalance `in.opts')
          Sizes,                   \* possible [series, total] sizes of a target
          MaxClock, FaultBudget, EnvBudget,
          InitDisc                 \* the possible sets of targets discovered at the start

VARIABLES nsh,       \* replicas of the StatefulSet = number of shards
          sc,        \* sc[i]: sidecar state of ordinal i (1..MaxN; meaningful for i <= scale)
          disc,      \* discovered targets
          size,      \* size[t]: [series, total] the target serves now
          alive,     \* alive[t]: the target answers
          est,       \* est[t]: what the explorer hands out: [known, health, series, total]
          clock,
          faults,    \* faults used so far
          envs,      \* environment changes used so far
          cyc        \* the faults scripted for the running cycle (CycIdle when idle)

wvars == <<nsh, sc, disc, size, alive, est, clock, faults, envs, cyc>>
kvars == <<in, pc, ch, pl, ld, idl, need, cur, vis, tot, sps, scale, reqs, posts, scales>>
allvars == <<wvars, kvars>>

Cap == 3       \* scrape counters are compared with MinWait only: capped in the model (and in the projection)
CapTimes(w) == [w EXCEPT !.status = [h \in DOMAIN @ |-> [@[h] EXCEPT !.times = IF @ > Cap THEN Cap ELSE @]]]
Fresh(clk) == S!Restart([S!Init0 EXCEPT !.clock = clk])       \* a new pod: empty store, idle since now
WithClock(w) == [w EXCEPT !.clock = clock]

(* ---- what the coordinator sees ---- *)
IdleOf(w) == IF w.idleAt = -1 THEN "none" ELSE IF clock - w.idleAt > KOpts.maxIdle THEN "expired" ELSE "fresh"
ReportSeq(w) ==
  LET ord == SetToSortSeq(DOMAIN w.status, <)
  IN [k \in DOMAIN ord |-> [t |-> ord[k], state |-> w.status[ord[k]].state, health |-> w.status[ord[k]].health,
                            times |-> w.status[ord[k]].times, series |-> w.status[ord[k]].series, total |-> w.status[ord[k]].total]]
ShardIn(i, mode, pf) ==
  [mode |-> mode, report |-> ReportSeq(sc[i]), head |-> S!RuntimeInfo(sc[i]).head, proc |-> S!RuntimeInfo(sc[i]).proc,
   idle |-> IdleOf(sc[i]), postFail |-> pf]
ExploreSeq ==
  LET ord == SetToSortSeq({t \in Targets : est[t].known}, <)
  IN [k \in DOMAIN ord |-> [t |-> ord[k], state |-> "", health |-> est[ord[k]].health, times |-> 0,
                            series |-> est[ord[k]].series, total |-> est[ord[k]].total]]
BuildInput(f) ==
  [id |-> "loop", opts |-> KOpts,
   shards |-> [i \in 1..nsh |-> ShardIn(i, f.modes[i], f.postFail[i])],
   active |-> SetToSortSeq(disc, <), explore |-> ExploreSeq, failScale |-> f.failScale]

(* ---- a coordination cycle ---- *)
\* placeholders of the right shape while no cycle runs (TLC compares old and new values of every variable)
CycIdle == [modes |-> <<>>, postFail |-> <<>>, rej |-> <<>>, failScale |-> -1]
InIdle  == [id |-> "idle", opts |-> KOpts, shards |-> <<>>, active |-> <<>>, explore |-> <<>>, failScale |-> 0]
NoFaults == [modes |-> [i \in 1..MaxN |-> "ok"], postFail |-> [i \in 1..MaxN |-> FALSE], rej |-> [i \in 1..MaxN |-> FALSE], failScale |-> 0]
FaultCount(f) == Cardinality({i \in 1..MaxN : f.modes[i] # "ok"}) + Cardinality({i \in 1..MaxN : f.postFail[i]}) + (IF f.failScale # 0 THEN 1 ELSE 0)
StartCycle(f) ==
  /\ pc = "idle" /\ nsh >= 1
  /\ faults + FaultCount(f) <= FaultBudget
  /\ in' = BuildInput(f) /\ pc' = "fetch" /\ cyc' = f
  /\ faults' = faults + FaultCount(f)
  /\ ch' = <<>> /\ pl' = <<>> /\ ld' = <<>> /\ idl' = <<>> /\ need' = ZeroLoad /\ cur' = 0 /\ vis' = {} /\ tot' = 0
  /\ sps' = <<>> /\ scale' = 0 /\ reqs' = <<>> /\ posts' = <<>> /\ scales' = <<>>
  /\ UNCHANGED <<nsh, sc, disc, size, alive, est, clock, envs>>

CycleStep ==
  /\ pc \notin {"idle", "done"}
  /\ (Fetch \/ Early \/ Gc \/ AllevP \/ AllevH \/ Assign \/ Scale \/ Down \/ Clamp \/ Apply)
  /\ UNCHANGED wvars

\* the last successful scale request decides the new scale
EffectiveScale ==
  LET ok == {k \in DOMAIN scales : k # in.failScale}
  IN IF ok = {} THEN nsh ELSE scales[CHOOSE k \in ok : \A m \in ok : m <= k]
\* shards listed in a file (pkg/shard/static): scale requests are accepted and change nothing
StaticShards == "static" \in DOMAIN KOpts /\ KOpts.static
EstTotal(t) == IF est[t].known THEN est[t].total ELSE 0
AssignSeq(targets) ==
  LET ord == SetToSortSeq({x.t : x \in targets}, <)
  IN [k \in DOMAIN ord |-> LET x == CHOOSE y \in targets : y.t = ord[k]
                           IN [job |-> "j1", h |-> x.t, state |-> x.state, series |-> x.series, total |-> x.total]]
EndCycle ==
  /\ pc = "done"
  /\ LET n2 == IF StaticShards THEN nsh ELSE EffectiveScale
         upd(i) == IF i <= nsh /\ posts # <<>> /\ posts[i].sent /\ posts[i].ok
                     THEN CapTimes(S!Update(WithClock(sc[i]), AssignSeq(posts[i].targets)))
                     \* the update reached the sidecar, whose reload of Prometheus failed: an error for the coordinator,
                     \* the sidecar's memory has taken the request over, nothing stored, Prometheus as before
                     ELSE IF i <= nsh /\ posts # <<>> /\ posts[i].sent /\ ~posts[i].ok /\ cyc.rej[i]
                     THEN CapTimes(S!UpdateRejected(WithClock(sc[i]), AssignSeq(posts[i].targets)))
                     ELSE sc[i]
     IN /\ nsh' = n2
        /\ sc' = [i \in 1..MaxN |-> IF i > n2 THEN Fresh(clock)            \* removed (or not yet existing): nothing kept
                                    ELSE IF i > nsh THEN Fresh(clock)       \* new pod
                                    ELSE upd(i)]
  /\ pc' = "idle" /\ cyc' = CycIdle
  /\ UNCHANGED <<disc, size, alive, est, clock, faults, envs, in, ch, pl, ld, idl, need, cur, vis, tot, sps, scale, reqs, posts, scales>>

(* ---- the shards' Prometheus instances ---- *)
RECURSIVE ScrapeAll(_, _)
ScrapeAll(w, ts) ==
  IF ts = <<>> THEN w
  ELSE LET t == Head(ts)
       IN ScrapeAll(S!Scrape(w, t, alive[t], size[t].series, size[t].total), Tail(ts))
\* the scrapes of the targets in TS complete on shard i (a whole round: TS = everything it holds; a round that was
\* under way while a cycle ran: TS = what it had been asked before the cycle and still holds)
\* Prometheus asks for the targets of the configuration it has loaded; the proxy answers for those the sidecar holds
LoadedH(w) == {p[2] : p \in w.loaded}
ScrapeSet(i, TS) ==
  /\ pc = "idle" /\ i <= nsh /\ TS \cap LoadedH(sc[i]) \cap DOMAIN sc[i].status # {}
  /\ sc' = [sc EXCEPT ![i] = CapTimes(ScrapeAll(sc[i], SetToSortSeq(TS \cap LoadedH(sc[i]) \cap DOMAIN sc[i].status, <)))]
  /\ UNCHANGED <<nsh, disc, size, alive, est, clock, faults, envs, cyc, kvars>>
ScrapeRound(i) == ScrapeSet(i, LoadedH(sc[i]))

(* ---- environment ---- *)
Tick ==
  /\ pc = "idle" /\ clock < MaxClock
  /\ clock' = clock + 1
  /\ sc' = [i \in 1..MaxN |-> [sc[i] EXCEPT !.clock = clock + 1]]
  /\ UNCHANGED <<nsh, disc, size, alive, est, faults, envs, cyc, kvars>>
\* the explorer probes a discovered target until a probe succeeds, and never again while it stays discovered;
\* a target that leaves discovery loses its entry (a later discovery starts from nothing)
EstUnknown == [known |-> FALSE, health |-> "unknown", series |-> 0, total |-> 0]
Probe(t) ==
  /\ pc = "idle" /\ t \in disc /\ ~(est[t].known /\ est[t].health = "up")
  /\ est' = [est EXCEPT ![t] = IF alive[t] THEN [known |-> TRUE, health |-> "up", series |-> size[t].series, total |-> size[t].total]
                                          ELSE [@ EXCEPT !.known = TRUE, !.health = "down"]]
  /\ UNCHANGED <<nsh, sc, disc, size, alive, clock, faults, envs, cyc, kvars>>
AddT(t)    == t \notin disc /\ disc' = disc \cup {t} /\ UNCHANGED <<size, alive, est>>
RemoveT(t) == t \in disc /\ disc' = disc \ {t} /\ est' = [est EXCEPT ![t] = EstUnknown] /\ UNCHANGED <<size, alive>>
SetSize(t, s) == s # size[t] /\ size' = [size EXCEPT ![t] = s] /\ UNCHANGED <<disc, alive, est>>
SetAlive(t, b) == b # alive[t] /\ alive' = [alive EXCEPT ![t] = b] /\ UNCHANGED <<disc, size, est>>
EnvFrame == pc = "idle" /\ envs < EnvBudget /\ envs' = envs + 1 /\ UNCHANGED <<nsh, sc, clock, faults, cyc, kvars>>
EnvChange ==
  /\ EnvFrame
  /\ \/ \E t \in Targets : AddT(t) \/ RemoveT(t) \/ SetAlive(t, ~alive[t])
     \/ \E t \in Targets, s \in Sizes : SetSize(t, s)
RestartSidecar(i) ==
  /\ pc = "idle" /\ i <= nsh /\ faults < FaultBudget /\ faults' = faults + 1
  /\ sc' = [sc EXCEPT ![i] = S!Restart(WithClock(sc[i]))]
  /\ UNCHANGED <<nsh, disc, size, alive, est, clock, envs, cyc, kvars>>

\* faults of the platform: the StatefulSet is scaled down by one from outside; a pod is recreated with an empty volume
ShrinkByOne ==
  /\ pc = "idle" /\ nsh > 1 /\ faults < FaultBudget /\ faults' = faults + 1
  /\ nsh' = nsh - 1 /\ sc' = [sc EXCEPT ![nsh] = Fresh(clock)]
  /\ UNCHANGED <<disc, size, alive, est, clock, envs, cyc, kvars>>
RecreatePod(i) ==
  /\ pc = "idle" /\ i <= nsh /\ faults < FaultBudget /\ faults' = faults + 1
  /\ sc' = [sc EXCEPT ![i] = Fresh(clock)]
  /\ UNCHANGED <<nsh, disc, size, alive, est, clock, envs, cyc, kvars>>

\* a targets update that is not from this coordinator's running cycle reaches shard i: the rest of a cycle of a
\* coordinator that crashed between two requests, a second coordinator instance, an operator.  P: set of [t, state]
PlaceSeq(P) == AssignSeq({[t |-> p.t, state |-> p.state, series |-> IF est[p.t].known THEN est[p.t].series ELSE 0, total |-> EstTotal(p.t)] : p \in P})
ForeignUpdate(i, P) ==
  /\ pc = "idle" /\ i <= nsh /\ faults < FaultBudget /\ faults' = faults + 1
  /\ sc' = [sc EXCEPT ![i] = CapTimes(S!Update(WithClock(sc[i]), PlaceSeq(P)))]
  /\ UNCHANGED <<nsh, disc, size, alive, est, clock, envs, cyc, kvars>>
Placements == UNION {{ {[t |-> t, state |-> f[t]] : t \in D} : f \in [D -> {"", "in_transfer"}]} : D \in SUBSET Targets}

KInit ==
  /\ nsh = 1 /\ clock = 0 /\ faults = 0 /\ envs = 0 /\ cyc = CycIdle
  /\ sc = [i \in 1..MaxN |-> Fresh(0)]
  /\ disc \in InitDisc /\ alive = [t \in Targets |-> TRUE]
  /\ size \in [Targets -> Sizes]
  /\ est = [t \in Targets |-> [known |-> FALSE, health |-> "unknown", series |-> 0, total |-> 0]]
  /\ pc = "idle" /\ in = InIdle /\ ch = <<>> /\ pl = <<>> /\ ld = <<>> /\ idl = <<>> /\ need = ZeroLoad /\ cur = 0
  /\ vis = {} /\ tot = 0 /\ sps = <<>> /\ scale = 0 /\ reqs = <<>> /\ posts = <<>> /\ scales = <<>>

\* one fault per cycle: one shard in a bad mode, one targets POST lost or refused by the sidecar (its reload of Prometheus
\* failed), or one scale request failing
OneFault ==
  {[NoFaults EXCEPT !.modes[i] = m] : i \in 1..MaxN, m \in {"notready", "statusfail", "rtfail", "pushfail", "rt2fail", "stale", "pushok"}}
  \cup {[NoFaults EXCEPT !.postFail[i] = TRUE] : i \in 1..MaxN}
  \cup {[NoFaults EXCEPT !.postFail[i] = TRUE, !.rej[i] = TRUE] : i \in 1..MaxN}
  \cup {[NoFaults EXCEPT !.failScale = k] : k \in {1, 2}}
KNext ==
  \/ \E f \in {NoFaults} \cup (IF faults < FaultBudget THEN OneFault ELSE {}) : StartCycle(f)
  \/ (\E i \in 1..MaxN : RestartSidecar(i) \/ RecreatePod(i)) \/ ShrinkByOne
  \/ (\E i \in 1..MaxN, P \in Placements : ForeignUpdate(i, P))
  \/ CycleStep \/ EndCycle
  \/ \E i \in 1..MaxN : ScrapeRound(i)
  \/ Tick \/ (\E t \in Targets : Probe(t)) \/ EnvChange
KSpec == KInit /\ [][KNext]_allvars
\* liveness: cycles keep running, every shard's Prometheus keeps scraping, the explorer keeps probing
KFair == KSpec /\ WF_allvars(StartCycle(NoFaults)) /\ WF_allvars(CycleStep) /\ WF_allvars(EndCycle)
               \* (strong fairness: these are disabled while a cycle is running, i.e. again and again)
               /\ \A i \in 1..MaxN : SF_allvars(ScrapeRound(i))
               /\ \A t \in Targets : SF_allvars(Probe(t))

-----------------------------------------------------------------------------
(* the observable world, in the shape the harness records it (next-state version: all primed) *)
ShardProj(w) ==
  [assign |-> LET a == w.assign IN [k \in DOMAIN a |-> [h |-> a[k].h, state |-> a[k].state, series |-> a[k].series, total |-> a[k].total]],
   status |-> S!Proj(w).status, idleAt |-> w.idleAt, loaded |-> SetToSortSeq(LoadedH(w), <)]
WorldProj(n, s, d, sz, al, e, c) ==
  [nsh |-> n, clock |-> c, shards |-> [i \in 1..n |-> ShardProj(s[i])], disc |-> SetToSortSeq(d, <),
   size |-> [t \in Targets |-> sz[t]], alive |-> [t \in Targets |-> al[t]], est |-> [t \in Targets |-> e[t]]]
World  == WorldProj(nsh, sc, disc, size, alive, est, clock)
WorldP == WorldProj(nsh', sc', disc', size', alive', est', clock')

(* projections used by the properties *)
Holders(t) == {i \in 1..nsh : t \in DOMAIN sc[i].status}
EligibleT(t) == /\ t \in disc /\ alive[t] /\ est[t].known /\ est[t].health = "up"
               /\ (KOpts.maxHead = 0 \/ size[t].series < KOpts.maxHead) /\ size[t].total < KOpts.maxProc
               /\ (KOpts.maxHead = 0 \/ est[t].series < KOpts.maxHead) /\ est[t].total < KOpts.maxProc
OversizedT(t) == (KOpts.maxHead # 0 /\ size[t].series > KOpts.maxHead) \/ size[t].total > KOpts.maxProc
Converged ==
  /\ \A t \in Targets : EligibleT(t) => Cardinality(Holders(t)) = 1
  \* ... and is scraped there: the shard's Prometheus runs with it
  /\ \A t \in Targets : EligibleT(t) => \A i \in Holders(t) : t \in LoadedH(sc[i])
  /\ \A i \in 1..nsh : \A t \in DOMAIN sc[i].status : sc[i].status[t].state = ""
  /\ \A i \in 1..nsh : \A t \in DOMAIN sc[i].status : t \in disc
\* C03: once the environment has stopped changing, the converged state is reached and kept
EventuallyConverged == <>[]Converged
\* C05 / C03: a target that is assigned stays assigned somewhere while it is discovered (no gap)
\* (losing a pod together with its volume - ShrinkByOne, RecreatePod - is the fault itself, not a gap kvass makes)
PlatformFault == pc = "idle" /\ pc' = "idle" /\ faults' # faults
NoGap ==
  [][\A t \in Targets : (t \in disc /\ t \in disc' /\ Holders(t) # {} /\ ~PlatformFault) => Holders(t)' # {}]_allvars
=============================================================================
