------------------------------- MODULE KvassEval -------------------------------
EXTENDS KvassProps, TLC, Json, IOUtils, SequencesExt
Runs == ndJsonDeserialize("runs.ndjson")
Viol == UNION {{[id |-> Runs[k].id, sig |-> v] : v \in C03Run(Runs[k]) \cup C05Run(Runs[k])} : k \in DOMAIN Runs}
ASSUME ndJsonSerialize("viol.ndjson", SetToSeq(Viol))
ASSUME ndJsonSerialize("evalstats.ndjson", <<[runs |-> Len(Runs),
   converging |-> Cardinality({k \in DOMAIN Runs : Runs[k].expectConverge})]>>)
=============================================================================
