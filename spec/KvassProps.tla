------------------------------ MODULE KvassProps ------------------------------
(* C03 / C05 / C06 as formulas over the worlds recorded from the real closed loop   *)
(* (one world after every step of a run; the shape is Kvass!World).                   *)
EXTENDS Integers, Sequences, FiniteSets
LOCAL R(s) == {s[k] : k \in DOMAIN s}

HoldersW(w, t) == {i \in 1..w.nsh : \E x \in R(w.shards[i].status) : x.h = t}
EligibleW(w, o, t) ==
  /\ t \in R(w.disc) /\ w.alive[t] /\ w.est[t].known /\ w.est[t].health = "up"
  /\ (o.maxHead = 0 \/ w.size[t].series < o.maxHead) /\ w.size[t].total < o.maxProc
  /\ (o.maxHead = 0 \/ w.est[t].series < o.maxHead) /\ w.est[t].total < o.maxProc
TargetsW(w) == DOMAIN w.size

\* why a world is not converged (empty set: converged)
NotConverged(w, o) ==
  {[f |-> "eligible-target-not-on-exactly-one-shard", t |-> t, holders |-> Cardinality(HoldersW(w, t))] :
      t \in {t \in TargetsW(w) : EligibleW(w, o, t) /\ Cardinality(HoldersW(w, t)) # 1}}
  \cup {[f |-> "assigned-but-not-scraped", t |-> t] :
      t \in {t \in TargetsW(w) : EligibleW(w, o, t) /\ Cardinality(HoldersW(w, t)) = 1 /\
               \E i \in HoldersW(w, t) : \E x \in R(w.shards[i].status) : x.h = t /\ x.health # "up"}}
  \cup {[f |-> "assigned-but-not-in-what-prometheus-runs-with", t |-> t] :
      t \in {t \in TargetsW(w) : EligibleW(w, o, t) /\ Cardinality(HoldersW(w, t)) = 1 /\
               \E i \in HoldersW(w, t) : t \notin R(w.shards[i].loaded)}}
  \cup {[f |-> "transfer-pending", t |-> x.h, shard |-> i] : <<i, x>> \in
      {<<i, x>> \in (1..w.nsh) \X UNION {R(w.shards[i].status) : i \in 1..w.nsh} : x \in R(w.shards[i].status) /\ x.state # ""}}
  \cup {[f |-> "undiscovered-target-assigned", t |-> x.h, shard |-> i] : <<i, x>> \in
      {<<i, x>> \in (1..w.nsh) \X UNION {R(w.shards[i].status) : i \in 1..w.nsh} : x \in R(w.shards[i].status) /\ x.h \notin R(w.disc)}}
  \cup {[f |-> "oversized-target-assigned", t |-> x.h, shard |-> i] : <<i, x>> \in
      {<<i, x>> \in (1..w.nsh) \X UNION {R(w.shards[i].status) : i \in 1..w.nsh} : x \in R(w.shards[i].status) /\ x.h \in R(w.disc)
          /\ w.est[x.h].known /\ ((o.maxHead # 0 /\ w.est[x.h].series > o.maxHead) \/ w.est[x.h].total > o.maxProc)
          /\ ((o.maxHead # 0 /\ w.size[x.h].series > o.maxHead) \/ w.size[x.h].total > o.maxProc)
          /\ x.times = 0}}

Placement(w) == [i \in 1..w.nsh |-> {<<x.h, x.state>> : x \in R(w.shards[i].status)}]
\* a target that is held and stays discovered is still held after the step
Gap(w1, w2) ==
  {t \in TargetsW(w1) : t \in R(w1.disc) /\ t \in R(w2.disc) /\ HoldersW(w1, t) # {} /\ HoldersW(w2, t) = {}}

\* C05, history form, on counters the harness keeps itself (steps[k].real[i]: per target h on shard i, n = proxied scrapes
\* completed since h was assigned there, m = since it was marked in-transfer there): when a cycle takes an in-transfer
\* copy away from a shard that stays, while the target stays discovered and a normal copy exists elsewhere (a move, not
\* the two-in-transfer-copies leftover), some normal copy has really been scraped three times and so has the source
\* since the move began - whatever the sidecars reported.
RealOf(st, i, t) == LET S == {x \in R(st.real[i]) : x.h = t} IN IF S = {} THEN [h |-> t, n |-> 0, m |-> 0] ELSE CHOOSE x \in S : TRUE
StateIn(w, i, t) == LET S == {x \in R(w.shards[i].status) : x.h = t} IN IF S = {} THEN "absent" ELSE (CHOOSE x \in S : TRUE).state
C05Run(run) ==
  {[f |-> "source-dropped-before-hand-over", t |-> p[2], at |-> p[1], src |-> p[3],
    srcSinceMove |-> RealOf(run.steps[p[1] - 1], p[3], p[2]).m,
    destScrapes |-> [d \in 1..run.steps[p[1] - 1].world.nsh |-> RealOf(run.steps[p[1] - 1], d, p[2]).n]] :
     p \in {p \in (2..Len(run.steps)) \X TargetsW(run.steps[1].world) \X (1..8) :
             LET k == p[1] t == p[2] i == p[3]
                 w1 == run.steps[k - 1].world  w2 == run.steps[k].world
             IN /\ run.steps[k].a = "cycle"
                /\ i <= w1.nsh /\ i <= w2.nsh
                /\ t \in R(w1.disc) /\ t \in R(w2.disc)
                /\ StateIn(w1, i, t) = "in_transfer" /\ StateIn(w2, i, t) = "absent"
                /\ \E d \in (1..w1.nsh) \ {i} : StateIn(w1, d, t) = ""
                /\ ~(/\ RealOf(run.steps[k - 1], i, t).m >= 3
                      /\ \E d \in (1..w1.nsh) \ {i} : StateIn(w1, d, t) = "" /\ RealOf(run.steps[k - 1], d, t).n >= 3)}}

\* the run: steps[k].world; quietFrom: first step of the fault-free, change-free tail; lastCycles: positions of the tail's cycles
C03Run(run) ==
  LET n == Len(run.steps)
      o == run.opts
      wend == run.steps[n].world
      cyclesInTail == {k \in run.quietFrom..n : run.steps[k].a = "cycle"}
      lastC == IF cyclesInTail = {} THEN 0 ELSE CHOOSE k \in cyclesInTail : \A m \in cyclesInTail : m <= k
  IN (IF run.expectConverge THEN NotConverged(wend, o) ELSE {})
     \cup (IF run.expectConverge /\ lastC > 1 /\ NotConverged(run.steps[lastC - 1].world, o) = {}
              /\ (Placement(run.steps[lastC - 1].world) # Placement(run.steps[lastC].world) \/ run.steps[lastC - 1].world.nsh # run.steps[lastC].world.nsh)
            THEN {[f |-> "converged-state-changed-by-a-further-cycle", at |-> lastC]} ELSE {})
     \cup {[f |-> "gap", t |-> t, at |-> k] : <<t, k>> \in
             {<<t, k>> \in TargetsW(wend) \X (2..n) : run.steps[k].a \notin {"shrink", "recreate", "place"}    \* losing a pod with its volume is the fault itself
                                                        /\ t \in Gap(run.steps[k - 1].world, run.steps[k].world)}}
=============================================================================
