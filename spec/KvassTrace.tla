------------------------------ MODULE KvassTrace ------------------------------
(* Trace validation of the real closed loop (real Coordinator, real sidecars, simulated    *)
(* Prometheus / StatefulSet / targets) against Kvass.tla.  traces.ndjson: one run per line   *)
(* [id, opts, sizes, steps]; a step is an action with its arguments and the projected REAL     *)
(* world after it.  Environment steps are deterministic; a cycle step is StartCycle, the        *)
(* coordinator's internal steps (TLC explores every map order / random pick) and EndCycle,       *)
(* and must be able to end in the recorded world.  The furthest position reached per run is      *)
(* written to progress.csv.                                                                      *)
EXTENDS Kvass, TLC, Json, IOUtils, CSV

Traces == ndJsonDeserialize("traces.ndjson")

VARIABLES tr, l
tvars == <<allvars, tr, l>>

Steps == Traces[tr].steps
StepN == Steps[l + 1]
FaultsOf(a) == [modes |-> [i \in 1..MaxN |-> IF i <= Len(a.modes) THEN a.modes[i] ELSE "ok"],
                postFail |-> [i \in 1..MaxN |-> IF i <= Len(a.postFail) THEN a.postFail[i] ELSE FALSE],
                rej |-> [i \in 1..MaxN |-> IF i <= Len(a.rej) THEN a.rej[i] ELSE FALSE],
                failScale |-> a.failScale]
SizeOf(a) == [series |-> a.series, total |-> a.total]
Matches == WorldP = StepN.world
Consume == l' = l + 1 /\ tr' = tr

TInit ==
  /\ tr \in DOMAIN Traces /\ l = 0
  /\ nsh = Traces[tr].nsh0 /\ clock = 0 /\ faults = 0 /\ envs = 0 /\ cyc = CycIdle
  /\ sc = [i \in 1..MaxN |-> Fresh(0)]
  /\ disc = {} /\ alive = [t \in Targets |-> TRUE]
  /\ size = [t \in Targets |-> SizeOf(Traces[tr].sizes[t])]
  /\ est = [t \in Targets |-> [known |-> FALSE, health |-> "unknown", series |-> 0, total |-> 0]]
  /\ pc = "idle" /\ in = InIdle /\ ch = <<>> /\ pl = <<>> /\ ld = <<>> /\ idl = <<>> /\ need = ZeroLoad /\ cur = 0
  /\ vis = {} /\ tot = 0 /\ sps = <<>> /\ scale = 0 /\ reqs = <<>> /\ posts = <<>> /\ scales = <<>>

EnvStep(a) ==
  /\ pc = "idle" /\ UNCHANGED <<nsh, sc, clock, faults, envs, cyc, kvars>>
  /\ CASE a.a = "add" -> AddT(a.t)
       [] a.a = "remove" -> RemoveT(a.t)
       [] a.a = "size" -> SetSize(a.t, SizeOf(a))
       [] a.a = "alive" -> SetAlive(a.t, a.on)

TNext ==
  \/ /\ pc = "idle" /\ l < Len(Steps)
     /\ LET a == StepN IN
        \/ a.a = "cycle" /\ StartCycle(FaultsOf(a)) /\ UNCHANGED <<tr, l>>
        \/ a.a = "scrape" /\ (IF Len(a.only) = 0 THEN ScrapeRound(a.i) ELSE ScrapeSet(a.i, {a.only[k] : k \in DOMAIN a.only})) /\ Matches /\ Consume
        \/ a.a = "tick" /\ Tick /\ Matches /\ Consume
        \/ a.a = "probe" /\ Probe(a.t) /\ Matches /\ Consume
        \/ a.a = "restart" /\ RestartSidecar(a.i) /\ Matches /\ Consume
        \/ a.a = "shrink" /\ ShrinkByOne /\ Matches /\ Consume
        \/ a.a = "recreate" /\ RecreatePod(a.i) /\ Matches /\ Consume
        \/ a.a = "place" /\ ForeignUpdate(a.i, {[t |-> a.place[k].t, state |-> a.place[k].state] : k \in DOMAIN a.place}) /\ Matches /\ Consume
        \/ a.a \in {"add", "remove", "size", "alive"} /\ EnvStep(a) /\ Matches /\ Consume
        \/ a.a = "noop" /\ UNCHANGED allvars /\ Matches /\ Consume
  \/ CycleStep /\ UNCHANGED <<tr, l>>
  \/ EndCycle /\ Matches /\ Consume
TSpec == TInit /\ [][TNext]_tvars

\* progress report (evaluated on every distinct state)
Progress == CSVWrite("%1$s,%2$s", <<tr, l>>, "progress.csv")
\* the cycle-level observation of the model at the end of every cycle can be compared too
=============================================================================
