------------------------------- MODULE MCBound -------------------------------
EXTENDS BoundKvass, TLC
Opts == [maxHead |-> 10, maxProc |-> 20, minShard |-> 2, maxShard |-> 3, maxIdle |-> 1, noAlleviate |-> FALSE]
SizeSet == {[series |-> 3, total |-> 3], [series |-> 6, total |-> 7]}
OptsBig == [maxHead |-> 10, maxProc |-> 20, minShard |-> 2, maxShard |-> 2, maxIdle |-> 0, noAlleviate |-> FALSE]
SizeBig == {[series |-> 3, total |-> 3], [series |-> 12, total |-> 12]}
None == {{}}
All == {Targets}
PlaceLive == {{}} \cup {{[t |-> t, state |-> "in_transfer"]} : t \in Targets}
TypeK == nsh \in 0..MaxN
=============================================================================
