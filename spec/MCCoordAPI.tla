------------------------------ MODULE MCCoordAPI ------------------------------
(* Samples worlds and queries of CoordAPI and exports each with the answer the    *)
(* specification predicts; the guarantees are checked on the predicted answers.   *)
EXTENDS CoordAPI, TLC, Json, IOUtils, CSV, Randomization

CONSTANTS OutFile, NWorlds
VARIABLES c, done
vars == <<c, done>>

Names == {"ja", "jab", "jb"}
Pats == {[re |-> "ja", ok |-> TRUE, matches |-> {"ja", "jab"}], [re |-> "^jb$", ok |-> TRUE, matches |-> {"jb"}],
         [re |-> "zz", ok |-> TRUE, matches |-> {}], [re |-> "(", ok |-> FALSE, matches |-> {}],
         [re |-> "b", ok |-> TRUE, matches |-> {"jab", "jb"}]}
Ids == 1..5
Healths == {"up", "down", "unknown"}
IdSeqs == {<<>>} \cup {<<i>> : i \in Ids} \cup {<<i, j>> : i, j \in Ids} \cup {<<1, 2, 3>>, <<5, 4, 3>>}
JobSets == {<<>>} \cup {<<[name |-> n, active |-> a, dropped |-> d]>> : n \in Names, a \in IdSeqs, d \in {<<>>, <<4>>, <<2, 5>>}}
StatusRecs == [id : Ids, health : Healths, series : {0, 3, 7}, total : {0, 9}, shards : {<<>>, <<"shard-0">>, <<"shard-0", "shard-1">>}]
Queries == [state : {"", "any", "active", "dropped", "bogus"}, statistics : {"", "only", "with", "bogus"},
            jobs : {<<>>} \cup {<<p>> : p \in Pats} \cup {<<p1, p2>> : p1, p2 \in Pats},
            health : {<<>>, <<"up">>, <<"down", "unknown">>, <<"bogus">>}]
OnePerId(S) == {r \in S : r = CHOOSE x \in S : x.id = r.id}
\* a world: up to three jobs with distinct names; a status entry for a random subset of the ids
Worlds ==
  {[jobs |-> js, order |-> <<"ja", "jab", "jb">>, status |-> st] :
     js \in {<<>>} \cup RandomSubset(NWorlds, {<<[name |-> "ja", active |-> a1, dropped |-> d1], [name |-> "jb", active |-> a2, dropped |-> d2], [name |-> "jab", active |-> a3, dropped |-> <<>>]>> :
                               a1 \in IdSeqs, a2 \in IdSeqs, a3 \in {<<>>, <<3>>, <<1, 5>>}, d1 \in {<<>>, <<4>>}, d2 \in {<<>>, <<2, 5>>}}),
     st \in {SetToSeq(OnePerId(RandomSubset(n, StatusRecs))) : n \in {0, 2, 3, 5}}}

Init == c \in [w : Worlds, q : RandomSubset(12, Queries)] /\ done = FALSE
Next == ~done /\ done' = TRUE /\ UNCHANGED c
Spec == Init /\ [][Next]_vars
J(q) == [q EXCEPT !.jobs = [k \in DOMAIN q.jobs |-> [re |-> q.jobs[k].re, ok |-> q.jobs[k].ok, matches |-> SetToSeq(q.jobs[k].matches)]]]
Export == done => CSVWrite("%1$s", <<ToJson([w |-> c.w, q |-> J(c.q), targets |-> Targets(c.w, c.q), runtime |-> RuntimeInfo(c.w)])>>, OutFile)
Inv_Guarantees == Guarantees(c.w, c.q, Targets(c.w, c.q)) = {}
=============================================================================
