------------------------------ MODULE MCDiscovery ------------------------------
EXTENDS Discovery, TLC, Json, IOUtils, CSV, SequencesExt, Randomization

CONSTANTS Jobs, MaxLen, OutFile, Sample

VARIABLES d, hist, latest   \* latest[j]: the last update content of j since it was (re)configured
vars == <<d, hist, latest>>

\* the group shapes a job's update is made of
GroupSets ==
  { <<>>,
    <<[bad |-> FALSE, members |-> {[id |-> 1, drop |-> FALSE]}]>>,
    <<[bad |-> FALSE, members |-> {[id |-> 1, drop |-> FALSE], [id |-> 2, drop |-> FALSE]}]>>,
    <<[bad |-> FALSE, members |-> {[id |-> 2, drop |-> FALSE]}], [bad |-> FALSE, members |-> {[id |-> 3, drop |-> TRUE]}]>>,
    <<[bad |-> FALSE, members |-> {[id |-> 1, drop |-> TRUE]}]>>,
    <<[bad |-> FALSE, members |-> {[id |-> 2, drop |-> TRUE], [id |-> 3, drop |-> TRUE], [id |-> 4, drop |-> FALSE]}]>>,
    <<[bad |-> TRUE, members |-> {[id |-> 1, drop |-> FALSE], [id |-> 4, drop |-> FALSE]}], [bad |-> FALSE, members |-> {[id |-> 3, drop |-> FALSE]}]>>,
    <<[bad |-> FALSE, members |-> {[id |-> 1, drop |-> FALSE]}], [bad |-> FALSE, members |-> {[id |-> 1, drop |-> FALSE], [id |-> 3, drop |-> FALSE]}]>> }
Updates == UNION {[S -> GroupSets] : S \in (SUBSET Jobs) \ {{}}}
Pick(S) == IF Sample > 0 THEN RandomSubset(Sample, S) ELSE S

\* JSON form of an update: sequence of [job, groups: sequence of [bad, members: sequence]]
UpdJson(S) == LET js == SetToSeq(DOMAIN S)
              IN [k \in DOMAIN js |-> [job |-> js[k],
                     groups |-> [g \in DOMAIN S[js[k]] |-> [bad |-> S[js[k]][g].bad, members |-> SetToSeq(S[js[k]][g].members)]]]]

Rec(a) == [a |-> a, upd |-> <<>>, jobs |-> <<>>, edited |-> <<>>]
Step(r, d2, l2) == d' = d2 /\ latest' = l2 /\ hist' = Append(hist, r)

DoSend == \E S \in Pick(Updates) :
            Step([Rec("Send") EXCEPT !.upd = UpdJson(S)], Translate(d, S),
                 [j \in (DOMAIN latest) \cup (DOMAIN S \cap d.cfg) |-> IF j \in DOMAIN S \cap d.cfg THEN S[j] ELSE latest[j]])
DoConsume == d.q # <<>> /\ Step(Rec("Consume"), Consume(d), latest)
\* a reload may also change settings of jobs it keeps (edited): that does not touch their targets
DoReload == \E J \in Pick(SUBSET Jobs) : \E E \in Pick(SUBSET J) :
              Step([Rec("Reload") EXCEPT !.jobs = SetToSeq(J), !.edited = SetToSeq(E)], Reload(d, J), Restrict(latest, DOMAIN latest \cap J))

Init == d = Init0 /\ hist = <<>> /\ latest = <<>>
Next == Len(hist) < MaxLen /\ (DoSend \/ DoConsume \/ DoReload)
Spec == Init /\ [][Next]_vars
View == <<d, latest>>
Export == Len(hist) = MaxLen => CSVWrite("%1$s", <<ToJson([steps |-> hist])>>, OutFile)

(* C17 on the model *)
FollowsLatest ==
  /\ DOMAIN d.active = DOMAIN latest /\ DOMAIN d.dropped = DOMAIN latest
  /\ DOMAIN latest \subseteq d.cfg
  /\ \A j \in DOMAIN latest : d.active[j] = Kept(latest[j]) /\ d.dropped[j] = Drops(latest[j])
ReloadKeeps ==
  [][\A j \in DOMAIN d.active : (j \in d'.cfg /\ hist' # hist /\ hist'[Len(hist')].a = "Reload") =>
        (j \in DOMAIN d'.active /\ d'.active[j] = d.active[j] /\ d'.dropped[j] = d.dropped[j])]_vars
ReloadRemoves == \A j \in DOMAIN d.active : j \in d.cfg
\* NOT an invariant (TLC finds Reload({ja}); Send(ja); Reload({}); Consume): an update queued before a
\* reload re-adds targets of a job the reload removed to the explorer's table until the next update is
\* consumed.  The statement only asks the explorer to track the latest update, which it does.
TableOK == \A e \in d.table : e[1] \in d.cfg
=============================================================================
