------------------------------- MODULE MCExplore -------------------------------
EXTENDS Explore, TLC, Json, IOUtils, CSV, SequencesExt
CONSTANTS MaxLen, OutFile
Bound == Len(hist) <= MaxLen
View == <<table, st, nobj, queue, busy, timers, fails>>
\* schedules for the harness: the history of a simulated behaviour
HJson == [k \in DOMAIN hist |-> [ev |-> hist[k].ev, t |-> hist[k].t,
             set |-> IF hist[k].ev = "update" THEN SetToSeq(hist[k].x) ELSE <<>>]]
Export == Len(hist) = MaxLen => CSVWrite("%1$s", <<ToJson([steps |-> HJson])>>, OutFile)
=============================================================================
