------------------------------- MODULE MCExplore -------------------------------
EXTENDS Explore, TLC, Json, IOUtils, CSV, SequencesExt, Randomization
CONSTANTS MaxLen, OutFile
Bound == Len(hist) <= MaxLen
\* generation: one randomly chosen discovery update is offered per step, so that schedules are not
\* dominated by updates
GenNext ==
  \/ \E S \in RandomSubset(1, SUBSET Targets) : Update(S)
  \/ \E t \in Targets : Get(t)
  \/ \E w \in Workers : Dequeue(w) \/ ProbeOK(w) \/ ProbeFail(w)
  \/ \E o \in timers : TimerFire(o)
  \/ ToggleInfo \/ ToggleRules
GenSpec == Init /\ [][GenNext]_vars
View == <<table, st, nobj, queue, busy, timers, fails, info>>
\* schedules for the harness: the history of a simulated behaviour
HJson == [k \in DOMAIN hist |-> [ev |-> hist[k].ev, t |-> hist[k].t,
             set |-> IF hist[k].ev = "update" THEN SetToSeq(hist[k].x) ELSE <<>>,
             on |-> IF hist[k].ev = "info" THEN hist[k].x ELSE TRUE]]
\* scenario prefixes worth executing on the real explorer: reached states in which an entry object is
\* stale (its target was removed, or removed and discovered again) while it is still queued, being
\* probed or waiting for its retry - and plain retries / lookups after success.  Exported from the
\* exhaustive run (one shortest history per distinct state).
Stale(o) == LET t == st[o].t IN t \notin DOMAIN table \/ table[t] # o
Rediscovered(o) == LET t == st[o].t IN t \in DOMAIN table /\ table[t] # o
InQueue == {queue[k] : k \in DOMAIN queue}
Scenario ==
  \/ \E o \in timers : Stale(o)
  \/ \E o \in InQueue : Stale(o)
  \/ \E w \in Workers : busy[w].o # 0 /\ Rediscovered(busy[w].o)
  \/ \E o \in timers : ~Stale(o)
  \/ \E t \in DOMAIN table : st[table[t]].probed
  \/ ~info /\ timers # {}
ExportScenario == (Scenario /\ Len(hist) >= 3) => CSVWrite("%1$s", <<ToJson([steps |-> HJson])>>, OutFile)
Export == Len(hist) = MaxLen => CSVWrite("%1$s", <<ToJson([steps |-> HJson])>>, OutFile)
=============================================================================
