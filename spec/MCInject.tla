------------------------------- MODULE MCInject -------------------------------
(* Enumerates configurations by their secret slots and exports each with the slot   *)
(* values the specification predicts for the generated file.                         *)
EXTENDS Inject, TLC, Json, IOUtils, CSV, SequencesExt

CONSTANTS OutFile
VARIABLES c, done
vars == <<c, done>>

Auths == {"none", "basic", "bearer", "authorization"}
JobAuths == {"none", "basic", "bearer", "authorization", "oauth2"}
\* a case: alerting with / without basic auth; one or two jobs; 0-2 remote write and 0-2 remote read entries
\* am "empty": an alerting section that is present but has no alertmanagers; rules: a rule_files section present
Cases == [am : {"none", "basic", "empty"}, rules : BOOLEAN, jobs : (JobAuths \X JobAuths) \cup {<<a>> : a \in JobAuths},
          rw : {<<>>} \cup {<<a>> : a \in Auths \cup {"userinfo"}} \cup (Auths \X Auths) \cup {<<"userinfo", "userinfo">>, <<"userinfo", "basic">>},
          rr : {<<>>} \cup {<<a>> : a \in (Auths \ {"authorization"}) \cup {"userinfo"}} \cup (({"basic", "bearer"}) \X {"basic", "bearer"})]

Slot(sec, key, val, wb) == [sec |-> sec, key |-> key, val |-> val, wasBearer |-> wb]
AuthSlots(sec, a, tag) ==
  CASE a = "none" -> <<>>
    [] a = "empty" -> <<>>
    [] a = "basic" -> <<Slot(sec, "password", tag \o "-pw", FALSE)>>
    [] a = "bearer" -> <<Slot(sec, "bearer_token", tag \o "-tok", TRUE)>>
    [] a = "authorization" -> <<Slot(sec, "credentials", tag \o "-cred", FALSE)>>
    [] a = "oauth2" -> <<Slot(sec, "client_secret", tag \o "-oauth", FALSE)>>
    [] a = "userinfo" -> <<Slot(sec, "url", tag \o "-ui", FALSE)>>      \* the password sits in the URL: http://user:<password>@host/...
RECURSIVE Cat(_, _, _, _)
Cat(sec, as, tag, k) == IF k > Len(as) THEN <<>> ELSE AuthSlots(sec, as[k], tag \o ToString(k)) \o Cat(sec, as, tag, k + 1)
SlotsOf(cs) == AuthSlots("alerting", cs.am, "am") \o Cat("job", cs.jobs, "job", 1) \o Cat("rw", cs.rw, "rw", 1) \o Cat("rr", cs.rr, "rr", 1)

Init == c \in Cases /\ done = FALSE
Next == ~done /\ done' = TRUE /\ UNCHANGED c
Spec == Init /\ [][Next]_vars
Export == done => CSVWrite("%1$s", <<ToJson([case |-> c, slots |-> SlotsOf(c), generated |-> Generated(SlotsOf(c)),
                                           preserved |-> SecretsPreserved(SlotsOf(c))])>>, OutFile)
Inv_Secrets == SecretsPreserved(SlotsOf(c))
Inv_NoJobSecret == NoJobSecretInFile(SlotsOf(c))
=============================================================================
