----------------------------- MODULE MCK8sShards -----------------------------
(* Enumerates the cases of K8sShards (one initial state per case, one step that   *)
(* applies the operation) and exports case + predicted outcome.                    *)
EXTENDS K8sShards, K8sProps, TLC, Json, IOUtils, CSV, SequencesExt

CONSTANTS MaxRep, MaxTpl, MaxPods, OutFile
BigLists == {11, 12, 23}

VARIABLES c, out
vars == <<c, out>>

Ords == 0..(MaxRep - 1)
AllPvcs(ntpl) == {[tpl |-> t, ord |-> o] : t \in 1..ntpl, o \in Ords}
\* scale cases: every old/new count, template count, flag; claims complete, or with one claim missing,
\* or with a foreign claim (a template name this set does not have) that must never be touched
ScaleCases ==
  UNION {{[kind |-> "scale", replicas |-> r, n |-> n, ntpl |-> t, flag |-> f, updfail |-> uf, pvcs |-> SetToSeq(p)] :
            r \in (0..MaxRep) \cup {-1}, n \in 0..MaxRep, f \in BOOLEAN, uf \in BOOLEAN,
            p \in {AllPvcs(t), AllPvcs(t) \ {[tpl |-> 1, ord |-> MaxRep - 1]},
                   AllPvcs(t) \cup {[tpl |-> 9, ord |-> 0], [tpl |-> 9, ord |-> MaxRep - 1]}}}
         : t \in 0..MaxTpl}
\* list cases: every number of pods, every order, every address pattern, and lists with a gap
Perms(S) == {s \in [1..Cardinality(S) -> S] : \A i, j \in 1..Cardinality(S) : i # j => s[i] # s[j]}
ListCases ==
  UNION {{[kind |-> "list", pods |-> [k \in DOMAIN perm |-> [ord |-> perm[k], ip |-> ips[perm[k]]]]] :
            perm \in Perms(S), ips \in [S -> {0, 7, 8}]}
         : S \in {0..(m - 1) : m \in 0..MaxPods} \cup {{0, 2}, {1, 2}}}
  \* long lists (two-digit ordinals) in a few characteristic orders
  \cup UNION {{[kind |-> "list", pods |-> [k \in 1..m |-> [ord |-> f[k], ip |-> 1 + (f[k] % 5)]]] :
                 f \in {[k \in 1..m |-> k - 1], [k \in 1..m |-> m - k], [k \in 1..m |-> (k * 7) % m]}}
              : m \in BigLists}
Stat == {[replicas |-> 2, updated |-> 2, ready |-> 2], [replicas |-> 2, updated |-> 1, ready |-> 2],
         [replicas |-> 2, updated |-> 2, ready |-> 1], [replicas |-> 3, updated |-> 0, ready |-> 0],
         [replicas |-> 0, updated |-> 0, ready |-> 0]}
ReplicaCases ==
  {[kind |-> "replicas", sets |-> <<[name |-> "a"] @@ s1, [name |-> "b"] @@ s2>>] : s1 \in Stat, s2 \in Stat}

\* one StatefulSet watched over up to three calls of Replicas(), minutes passing in between
SeqSteps == [st : {[replicas |-> 2, updated |-> 2, ready |-> 2], [replicas |-> 2, updated |-> 1, ready |-> 2], [replicas |-> 2, updated |-> 2, ready |-> 1],
                   [replicas |-> 2, updated |-> 1, ready |-> 1]}, adv : {0, 1, 3}]
ReplicaSeqCases == {[kind |-> "replicaseq", steps |-> s] : s \in UNION {[1..n -> SeqSteps] : n \in 1..3}}

Predict(cs) ==
  CASE cs.kind = "list" -> [shards |-> ListShards(cs.pods)]
    [] cs.kind = "scale" -> LET r == ScaleResult(cs.replicas, cs.ntpl, Rng(cs.pvcs), cs.flag, cs.n, cs.updfail)
                            IN [replicas |-> r.replicas, pvcs |-> SetToSeq(r.pvcs), writes |-> r.updates]
    [] cs.kind = "replicaseq" -> [coordinated |-> ReplicasSeq(-1, 0, cs.steps, 1)]
    [] cs.kind = "replicas" -> [managers |-> SelectSeq(<<"a", "b">>, LAMBDA nm : \E s \in Rng(cs.sets) : s.name = nm /\ Coordinated(s))]

Init == c \in ScaleCases \cup ListCases \cup ReplicaCases \cup ReplicaSeqCases /\ out = <<>>
Next == out = <<>> /\ out' = Predict(c) /\ UNCHANGED c
Spec == Init /\ [][Next]_vars
AtEnd == out # <<>>
Export == AtEnd => CSVWrite("%1$s", <<ToJson([case |-> c, out |-> out])>>, OutFile)
Inv_C18 == AtEnd => C18(c, out) = {}
=============================================================================
