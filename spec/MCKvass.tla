------------------------------- MODULE MCKvass -------------------------------
EXTENDS Kvass, TLC
Opts == [maxHead |-> 10, maxProc |-> 20, minShard |-> 1, maxShard |-> 3, maxIdle |-> 1, noAlleviate |-> FALSE]
SizeSet == {[series |-> 4, total |-> 5], [series |-> 7, total |-> 9]}
Small == clock <= 2
TypeK == nsh \in 0..MaxN
=============================================================================
