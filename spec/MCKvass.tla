------------------------------- MODULE MCKvass -------------------------------
EXTENDS Kvass, TLC
Opts == [maxHead |-> 10, maxProc |-> 20, minShard |-> 2, maxShard |-> 3, maxIdle |-> 1, noAlleviate |-> FALSE]
\* one small and one large size: two large targets overload a shard (relief, transfer), min-shard 2 gives every
\* run a second shard (duplicates after an unreachable shard, orphaned transfers)
SizeSet == {[series |-> 3, total |-> 3], [series |-> 6, total |-> 7]}
None == {{}}
All == {Targets}
\* liveness runs: the foreign updates that leave a pending transfer without partner, or wipe a shard
PlaceLive == {{}} \cup {{[t |-> t, state |-> "in_transfer"]} : t \in Targets}
Small == clock <= 2
TypeK == nsh \in 0..MaxN
=============================================================================
