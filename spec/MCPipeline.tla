------------------------------ MODULE MCPipeline ------------------------------
(* Enumerates every case (cfg, L) of Pipeline and exports it with the outcomes the   *)
(* specification predicts for the plain and the sharded path.                         *)
EXTENDS Pipeline, TLC, Json, IOUtils, CSV, SequencesExt

CONSTANTS OutFile
VARIABLES c, done
vars == <<c, done>>

Cfgs == [scheme : {"http", "https"}, path : {"/metrics", "/m2"}, k1 : {"none", "one", "two"}]
Ls == [addr : {"h1:80", "h1", "h2:9100", "[::1]", "[::1]:9100"}, scheme : {"", "http", "https"}, path : {"", "/x"},
       p1 : {"", "v1", "x"}, p3 : {"", "z"}, inst : {"", "custom"}, app : {"", "a"}, gapp : {"", "g"}, bad : {"", "b"}, tmp : {"", "t"},
       lk1 : {"", "m"}, sib : {"none", "noaddr", "badval"}]

\* everything the hash may depend on: all labels after populateLabels, and the URL
HashKey(cfg, L) ==
  [labels |-> Plain(cfg, L).labels \cup {<<"__address__", PAddr(cfg, L)>>, <<"__scheme__", PScheme(cfg, L)>>,
                 <<"__metrics_path__", PPath(cfg, L)>>, <<"__param_k1", PP1(cfg, L)>>, <<"__param_k3", L.p3>>, <<"__tmp_a", L.tmp>>},
   url |-> Plain(cfg, L).url]

J(o) == [labels |-> SetToSeq(o.labels), url |-> [scheme |-> o.url.scheme, host |-> o.url.host, path |-> o.url.path, query |-> SetToSeq(o.url.query)]]
Init == c \in [cfg : Cfgs, L : Ls] /\ done = FALSE
Next == ~done /\ done' = TRUE /\ UNCHANGED c
Spec == Init /\ [][Next]_vars
Export == done => CSVWrite("%1$s", <<ToJson([cfg |-> c.cfg, L |-> c.L, plain |-> J(Plain(c.cfg, c.L)), sharded |-> J(Sharded(c.cfg, c.L)),
                                           differs |-> Differs(c.cfg, c.L), hashkey |-> ToJson(J(HashKey(c.cfg, c.L)))])>>, OutFile)
\* the model's own account of where the two paths differ
DiffersExactly == Equivalent(c.cfg, c.L) <=> ~Differs(c.cfg, c.L)
Inv_C02 == Equivalent(c.cfg, c.L)
=============================================================================
