---------------------------- MODULE MCProxyPair ----------------------------
EXTENDS ProxyPair
\* a small catalogue of scrapes that can run next to each other (no administrative stop: that setting is global)
Sc(l, c, e, k, o, a) == [len |-> l, cuts |-> c, enc |-> e, fail |-> [kind |-> k, off |-> o], short |-> 0, werr |-> 0,
                         stop |-> FALSE, flip |-> FALSE, assigned |-> a]
MCPairScenarios ==
  { Sc(3, {1, 2}, "gzip", "none", 0, TRUE), Sc(2, {1}, "gzip", "none", 0, TRUE), Sc(3, {}, "gzip", "none", 0, FALSE),
    Sc(3, {1, 2}, "identity", "none", 0, TRUE), Sc(2, {1}, "identity", "none", 0, FALSE),
    Sc(3, {1}, "gzip", "eof", 2, TRUE), Sc(3, {1, 2}, "gzip", "reset", 1, TRUE), Sc(3, {2}, "identity", "reset", 1, TRUE),
    Sc(2, {}, "gzip", "connect", 0, TRUE), Sc(3, {1}, "identity", "timeout", 2, TRUE) }
=============================================================================
