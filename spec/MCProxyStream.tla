---------------------------- MODULE MCProxyStream ----------------------------
(* Exhaustive exploration of ProxyStream over a finite scenario space; every     *)
(* terminal state is exported (scenario + outcome the specification predicts) as  *)
(* one replay case for the real proxy.                                            *)
EXTENDS ProxyStream, TLC, Json, IOUtils, CSV, SequencesExt

CONSTANTS MaxLen, OutFile

Lens == 0..MaxLen
ScenarioSpace ==
  UNION {
    { [len |-> l, cuts |-> SetToSortSeq(c, <), enc |-> e, fail |-> f, short |-> sh, werr |-> we, stop |-> st, flip |-> fl, assigned |-> a] :
        c \in SUBSET (1..(l - 1)),
        e \in {"identity", "gzip"},
        f \in {[kind |-> "none", off |-> 0]}
              \cup {[kind |-> k, off |-> 0] : k \in PreKinds}
              \cup {[kind |-> k, off |-> o] : k \in BodyKinds, o \in 0..(l - 1)},   \* breaking off exactly at the end is not "part-way"
        sh \in {0, 1},
        we \in {0},
        st \in BOOLEAN, fl \in BOOLEAN, a \in BOOLEAN }
    : l \in Lens }
\* cuts are kept as a sorted sequence in the exported scenario; the specification wants a set
AsSpec(s) == [s EXCEPT !.cuts = {s.cuts[k] : k \in DOMAIN s.cuts}]
MCScenarios == {AsSpec(s) : s \in {x \in ScenarioSpace : ~(x.werr # 0 /\ (x.stop \/ x.enc = "gzip"))}}

AtDone == stage = "done"
ModelOut == [out EXCEPT !.fwd = out.fwd] @@ [exact |-> out.fwd = sc.len, prefix |-> TRUE]
Export == AtDone =>
  CSVWrite("%1$s", <<ToJson([sc |-> [sc EXCEPT !.cuts = SetToSortSeq(sc.cuts, <)], out |-> ModelOut])>>, OutFile)

Inv_C12 == AtDone => C12(sc, ModelOut) /\ C12Prefix(sc, ModelOut)
Inv_C13 == AtDone => C13(sc, ModelOut)
PrefixInv == fwd <= pos /\ pos <= sc.len
=============================================================================
