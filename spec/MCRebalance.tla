---------------------------- MODULE MCRebalance ----------------------------
(* Model-checking / generation wrapper of Rebalance: the inputs are read from *)
(* an NDJSON file (one input record per line, produced by bin/check from the   *)
(* TLA-defined grid or by seeded sampling), every behaviour of every input is   *)
(* explored, the property formulas are evaluated on every terminal state, and   *)
(* every distinct terminal state is exported as one JSON line.                  *)
EXTENDS Rebalance, RebalanceProps, Json, IOUtils, CSV

CONSTANTS InFile, OutFile

Inputs == LET s == ndJsonDeserialize(InFile) IN {s[k] : k \in DOMAIN s}

AtDone == pc = "done"

\* properties on the model's terminal states (the model mirrors the code, so on a tree with
\* known findings these are expected to fail; they are then counted, not asserted - see Export)
ModelViol == LET a == All(in, Out) IN {p \in DOMAIN a : a[p] # {}}

Export ==
  AtDone => CSVWrite("%1$s", <<ToJson([id |-> in.id, out |-> Out, viol |-> SetToSeq(ModelViol)])>>, OutFile)

Inv_C01 == AtDone => C01(in, Out) = {}
Inv_C04 == AtDone => C04(in, Out) = {}
Inv_C05 == AtDone => C05(in, Out) = {}
Inv_C07 == AtDone => C07(in, Out) = {}
Inv_C08 == AtDone => C08(in, Out) = {}

TypeOK ==
  /\ pc \in {"fetch", "early", "gc", "allevP", "allevH", "assign", "scale", "down", "clamp", "apply", "done"}
  /\ pc \notin {"fetch"} => \A i \in Shards : ld[i].head >= 0 /\ ld[i].proc >= 0
=============================================================================
