------------------------------ MODULE MCSidecar ------------------------------
(* Model of one sidecar driven by every operation the outside world can perform *)
(* on it.  Used twice: exhaustive BFS with VIEW = w (history hidden) to check the *)
(* C10 / C14 invariants and step properties on the model, and -simulate to       *)
(* generate behaviours (history exported as JSON when it reaches depth MaxLen)    *)
(* that the harness replays on the real sidecar.                                  *)
EXTENDS Sidecar, TLC, Json, IOUtils, CSV, Randomization

CONSTANTS Targets,    \* e.g. {1, 2, 3}
          Jobs,       \* e.g. {"j1", "j2"}
          MaxLen,     \* length of exported behaviours / BFS depth bound
          MaxClock,
          OutFile,
          Sample      \* 0: offer every request (exhaustive runs)

VARIABLES w, hist
vars == <<w, hist>>

\* estimates the coordinator sends for target h (fixed per target; the value set is what matters)
Est(h) == [series |-> 2 * h, total |-> 3 * h]

\* all requests: every target absent or present with a job and a state; listed in target order
ReqChoices == [Targets -> {<<"-", "">>} \cup (Jobs \X {"", "in_transfer"})]
ReqSeq(c) ==
  LET present == {h \in Targets : c[h][1] # "-"}
      ord == SetToSortSeq(present, <)
  IN [k \in DOMAIN ord |-> [job |-> c[ord[k]][1], h |-> ord[k], state |-> c[ord[k]][2],
                            series |-> Est(ord[k]).series, total |-> Est(ord[k]).total]]

Payloads == {<<1, 1>>, <<1, 3>>, <<4, 4>>, <<5, 9>>, <<0, 2>>}    \* <<kept, total>>

Step(rec, w2) ==
  /\ w' = w2
  /\ hist' = Append(hist, [rec EXCEPT !.post = Proj(w2)])

R(a) == [a |-> a, h |-> 0, ok |-> FALSE, kept |-> 0, total |-> 0, n |-> 0, req |-> <<>>, post |-> <<>>]

\* Sample > 0 (generation runs): only Sample randomly chosen requests are offered per step, so
\* that the simulator does not enumerate all of them for every step of every behaviour
DoUpdate  == \E c \in (IF Sample > 0 THEN RandomSubset(Sample, ReqChoices) ELSE ReqChoices) : LET a == ReqSeq(c) IN Step([R("Update") EXCEPT !.req = a], Update(w, a))
DoUpdateRej == \E c \in (IF Sample > 0 THEN RandomSubset(Sample, ReqChoices) ELSE ReqChoices) : LET a == ReqSeq(c) IN Step([R("UpdateRejected") EXCEPT !.req = a], UpdateRejected(w, a))
DoUpdateRejW == \E c \in (IF Sample > 0 THEN RandomSubset(Sample, ReqChoices) ELSE ReqChoices) : LET a == ReqSeq(c) IN Step([R("UpdateRejectedW") EXCEPT !.req = a], UpdateRejectedW(w, a))
DoScrapeOK == \E h \in Targets, p \in (IF Sample > 0 THEN RandomSubset(1, Payloads) ELSE Payloads) :
                Step([R("Scrape") EXCEPT !.h = h, !.ok = TRUE, !.kept = p[1], !.total = p[2]], Scrape(w, h, TRUE, p[1], p[2]))
DoScrapeFail == \E h \in Targets : Step([R("Scrape") EXCEPT !.h = h], Scrape(w, h, FALSE, 0, 0))
DoRestart == Step(R("Restart"), Restart(w))
DoRestartFail == Step(R("RestartReloadFails"), RestartReloadFails(w))
DoTick    == w.clock < MaxClock /\ Step(R("Tick"), Tick(w))
\* the configuration is reloaded with other metric relabeling rules: the bookkeeping is untouched, later scrapes are counted by the new rules
DoReconfig == Sample > 0 /\ Step(R("Reconfig"), Reconfig(w))
DoSetHead == \E n \in {0, 7, 40} : n # w.promHead /\ Step([R("SetHead") EXCEPT !.n = n], SetHead(w, n))

Init == w = Restart(Init0) /\ hist = <<>>     \* a sidecar always loads its (here absent) store at start
Next == Len(hist) < MaxLen /\ (DoUpdate \/ DoUpdateRej \/ DoUpdateRejW \/ DoScrapeOK \/ DoScrapeFail \/ DoRestart \/ DoRestartFail \/ DoReconfig \/ DoTick \/ DoSetHead)
Spec == Init /\ [][Next]_vars
View == w
\* generation: a behaviour is exported when it reaches MaxLen (checked as an "invariant", which
\* the simulator evaluates only on the states it actually visits)
Export == Len(hist) = MaxLen => CSVWrite("%1$s", <<ToJson([steps |-> hist])>>, OutFile)

-----------------------------------------------------------------------------
(* C10 on the model *)
DomOK   == DOMAIN w.status = Hashes(w.assign)
StateOK == \A h \in DOMAIN w.status : w.status[h].state = ReqOf(w.assign, h).state
IdleOK  == /\ (w.idleAt # -1) <=> (w.assign = <<>>)
           /\ w.idleAt <= w.clock
           /\ RuntimeInfo(w).idleAt = w.idleAt
\* step properties, phrased on the last recorded operation
LastIs(a) == hist' # hist /\ hist'[Len(hist')].a = a
KeptStats ==
  [][(LastIs("Update") \/ LastIs("UpdateRejected") \/ LastIs("UpdateRejectedW")) =>
       \A h \in DOMAIN w.status \cap DOMAIN w'.status :
          /\ w'.status[h].health = w.status[h].health /\ w'.status[h].err = w.status[h].err
          /\ w'.status[h].series = w.status[h].series /\ w'.status[h].total = w.status[h].total
          /\ w'.status[h].win = w.status[h].win
          /\ w'.status[h].times = (IF w.status[h].state = "" /\ w'.status[h].state = "in_transfer" THEN 0 ELSE w.status[h].times)]_vars
NewStart ==
  [][(LastIs("Update") \/ LastIs("UpdateRejected")) =>
       \A h \in (DOMAIN w'.status) \ DOMAIN w.status :
          /\ w'.status[h].health = "unknown" /\ w'.status[h].times = 0
          /\ w'.status[h].series = Est(h).series /\ w'.status[h].total = Est(h).total]_vars
\* (a restart resumes what was acknowledged: after rejected updates that may be another - earlier - idle instant)
InStore == w.store.has /\ w.store.assign = w.assign /\ w.store.idleAt = w.idleAt
IdleKept ==
  [][(w.idleAt # -1 /\ w'.assign = <<>> /\ ((LastIs("Restart") \/ LastIs("RestartReloadFails")) => InStore)) => w'.idleAt = w.idleAt]_vars
IdleSet ==
  [][(w.idleAt = -1 /\ w'.assign = <<>> /\ ~LastIs("Restart") /\ ~LastIs("RestartReloadFails")) => w'.idleAt = w.clock]_vars
\* C11 on the model: the generated file lists exactly the assigned targets (of the jobs the configuration knows)
GenIsAssigned == w.gen = GenOf(w.assign)
(* C14 on the model *)
LoadOK ==
  LET rt == RuntimeInfo(w) IN
  /\ rt.proc = SumF(w.status, DOMAIN w.status, "total")
  /\ rt.head >= SumF(w.status, DOMAIN w.status, "series") /\ rt.head >= w.promHead
  /\ (rt.head = w.promHead \/ rt.head = SumF(w.status, DOMAIN w.status, "series"))
WindowOK ==
  \A h \in DOMAIN w.status : LET e == w.status[h] IN
     /\ Len(e.win) <= 3
     /\ (e.win # <<>> => e.series = Mean(e.win))
SeriesStep ==
  [][LastIs("Scrape") =>
       LET r == hist'[Len(hist')] IN
       r.h \in DOMAIN w.status =>
         /\ w'.status[r.h].times = w.status[r.h].times + 1
         /\ (r.ok => /\ w'.status[r.h].total = r.total
                     /\ w'.status[r.h].win = Push(w.status[r.h].win, r.kept)
                     /\ w'.status[r.h].health = "up" /\ ~w'.status[r.h].err)
         /\ (~r.ok => /\ w'.status[r.h].total = w.status[r.h].total /\ w'.status[r.h].series = w.status[r.h].series
                      /\ w'.status[r.h].health = "down" /\ w'.status[r.h].err)]_vars
=============================================================================
