------------------------------- MODULE MCStable -------------------------------
(* Model-checking instances of StableKvass (cycle fixpoints).  Big: a small size and one that alone exceeds the    *)
(* head limit, two shards - a target grows too big next to a movable one.  Std: the configuration of MCKvass.        *)
EXTENDS StableKvass, TLC
OptsBig == [maxHead |-> 10, maxProc |-> 20, minShard |-> 2, maxShard |-> 2, maxIdle |-> 0, noAlleviate |-> FALSE]
SizeBig == {[series |-> 3, total |-> 3], [series |-> 12, total |-> 12]}
OptsStd == [maxHead |-> 10, maxProc |-> 20, minShard |-> 2, maxShard |-> 3, maxIdle |-> 1, noAlleviate |-> FALSE]
SizeStd == {[series |-> 3, total |-> 3], [series |-> 6, total |-> 7]}
None == {{}}
All == {Targets}
PlaceLive == {{}} \cup {{[t |-> t, state |-> "in_transfer"]} : t \in Targets}
TypeK == nsh \in 0..MaxN
=============================================================================
