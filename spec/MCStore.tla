------------------------------- MODULE MCStore -------------------------------
EXTENDS Store, StoreProps, TLC, Json, IOUtils, CSV

CONSTANTS OutFile, Names, NB

MCCases == {[a |-> a, b |-> b, nblocks |-> NB, cut |-> k, retry |-> r] : a \in Names \cup {"none"}, b \in Names, k \in 0..NB, r \in BOOLEAN} \ {x \in [a : Names \cup {"none"}, b : Names, nblocks : {NB}, cut : {NB}, retry : {TRUE}] : TRUE}

AtEnd == pc = "stopped" /\ Len(starts) = 2
\* the model names a start from an absent store "none"; observations call that "empty"
Norm(s) == [k \in DOMAIN s |-> [s[k] EXCEPT !.resumed = IF @ = "none" THEN "empty" ELSE @]]
ModelOut == [acked |-> acked, starts |-> Norm(starts)]
Export == AtEnd => CSVWrite("%1$s", <<ToJson([case |-> c, out |-> ModelOut])>>, OutFile)
Inv_C09 == AtEnd => C09(c, ModelOut) = {}
=============================================================================
