------------------------------- MODULE Pipeline -------------------------------
(***************************************************************************)
(* The label / URL pipeline of one discovered target, on two paths:            *)
(*   Plain   what a single Prometheus makes of it (populateLabels, final          *)
(*           labels, scrape URL)                                                  *)
(*   Sharded what the shard's Prometheus and the sidecar proxy make of it after   *)
(*           kvass has processed it: coordinator-side populateLabels               *)
(*           (pkg/discovery/translate.go), removal of the labels of configured     *)
(*           params, prefixing of invalid label names, JSON, generated static       *)
(*           target group with the routing params (pkg/sidecar/injector.go), job    *)
(*           forced to http, label-name repair rule, the shard's populateLabels,    *)
(*           and the proxy's URL rewriting (pkg/sidecar/proxy.go translateURL).     *)
(* A case is the job shape cfg and the label set L the target has AFTER the job's   *)
(* relabel_configs ran (the harness renders L by discovery labels plus constant      *)
(* `replace` rules, so that real relabeling produces it):                            *)
(*   cfg: scheme, path, k1 ("none" | "one" | "two": params k1 absent / [v1] /        *)
(*        [v1, v2])                                                                  *)
(*   L:   addr, scheme, path ("" = job default), p1 / p3 (value of __param_k1 /      *)
(*        __param_k3 set by relabeling, "" = untouched), inst, app, bad (a label      *)
(*        whose name is not a valid Prometheus name: starts with a digit), tmp        *)
(*        (a __tmp label), gapp (a label "app" carried by the target GROUP: the        *)
(*        target's own label wins), lk1 (a PLAIN label whose name is that of the       *)
(*        configured param, "k1"), sib (the group holds a second entry that            *)
(*        Prometheus rejects - "noaddr": empty address, "badval": a label value that    *)
(*        is not valid UTF-8 - and which must cost the group nothing else)              *)
(* StripChangedParams = TRUE mirrors the code: the label of every CONFIGURED param is *)
(* removed before shipping, also when relabeling changed its value.                   *)
(***************************************************************************)
EXTENDS Integers, Sequences, FiniteSets

CONSTANTS StripChangedParams

HasPort(a) == a \in {"h1:80", "h2:9100", "[::1]:9100"}
WithPort(a, scheme) == IF HasPort(a) THEN a ELSE IF scheme = "https" THEN a \o ":443" ELSE a \o ":80"

CfgK1(cfg) == CASE cfg.k1 = "none" -> <<>> [] cfg.k1 = "one" -> <<"v1">> [] cfg.k1 = "two" -> <<"v1", "v2">>

(* ---- plain Prometheus ---- *)
PScheme(cfg, L) == IF L.scheme = "" THEN cfg.scheme ELSE L.scheme
PPath(cfg, L)   == IF L.path = "" THEN cfg.path ELSE L.path
PAddr(cfg, L)   == WithPort(L.addr, PScheme(cfg, L))
\* value of __param_k1 after relabeling: the relabelled value, else the first configured value
PP1(cfg, L) == IF L.p1 # "" THEN L.p1 ELSE IF cfg.k1 = "none" THEN "" ELSE "v1"
\* query: configured values with the first one replaced by the label; labels of other params appended
QueryK1(cfg, p1) == IF p1 = "" THEN CfgK1(cfg)
                    ELSE IF CfgK1(cfg) = <<>> THEN <<p1>> ELSE <<p1>> \o Tail(CfgK1(cfg))
Query(k1vals, p3) == (IF k1vals = <<>> THEN {} ELSE {<<"k1", k1vals>>}) \cup (IF p3 = "" THEN {} ELSE {<<"k3", <<p3>>>>})
FinalLabels(job, inst, app, bad, lk1) ==
  {<<"job", job>>, <<"instance", inst>>} \cup (IF app = "" THEN {} ELSE {<<"app", app>>}) \cup (IF bad = "" THEN {} ELSE {<<"1bad", bad>>})
  \cup (IF lk1 = "" THEN {} ELSE {<<"k1", lk1>>})
App(L) == IF L.app # "" THEN L.app ELSE L.gapp      \* the target's own label overrides the group's
Plain(cfg, L) ==
  [labels |-> FinalLabels("j", IF L.inst = "" THEN PAddr(cfg, L) ELSE L.inst, App(L), L.bad, L.lk1),
   url    |-> [scheme |-> PScheme(cfg, L), host |-> PAddr(cfg, L), path |-> PPath(cfg, L),
               query |-> Query(QueryK1(cfg, PP1(cfg, L)), L.p3)]]

(* ---- kvass ---- *)
\* what the coordinator ships for the target (labels after its own populateLabels)
Shipped(cfg, L) ==
  [addr |-> PAddr(cfg, L), scheme |-> PScheme(cfg, L), path |-> PPath(cfg, L),
   \* the label of a configured param is removed; of an unconfigured one kept
   p1 |-> IF cfg.k1 # "none" /\ (StripChangedParams \/ PP1(cfg, L) = "v1") THEN "" ELSE PP1(cfg, L),
   p3 |-> L.p3,
   inst |-> IF L.inst = "" THEN PAddr(cfg, L) ELSE L.inst,
   app |-> App(L),
   bad |-> L.bad,            \* shipped under the name __invalid_label_1bad
   lk1 |-> L.lk1,            \* an ordinary label: the name of a param is "__param_k1", not "k1"
   tmp |-> L.tmp]
\* the shard's Prometheus: job forced to http, params as configured, labels from the static group;
\* the configured param's label is (re)set from the job's params; the repair rule maps the prefixed
\* name back; the proxy removes the routing params and restores the scheme
Sharded(cfg, L) ==
  LET s == Shipped(cfg, L)
      p1shard == IF cfg.k1 # "none" THEN "v1" ELSE s.p1       \* populateLabels sets __param_k1 from the config
  IN [labels |-> FinalLabels("j", s.inst, s.app, s.bad, s.lk1),
      url    |-> [scheme |-> s.scheme, host |-> s.addr, path |-> s.path,
                  query |-> Query(QueryK1(cfg, p1shard), s.p3)]]

Equivalent(cfg, L) == Sharded(cfg, L) = Plain(cfg, L)
\* the only cases in which the paths differ: relabeling changed the value of a configured param
Differs(cfg, L) == cfg.k1 # "none" /\ L.p1 \notin {"", "v1"}

(* identity of a target (C15): final labels and URL *)
Key(cfg, L) == Plain(cfg, L)
=============================================================================
