----------------------------- MODULE PipelineEval -----------------------------
(* Verdict step of C02 and C15.  obs.ndjson: per case what the real plain path and   *)
(* the real sharded path produced (sets of [labels, url]) and the hashes the real      *)
(* discovery computed; groups.ndjson: the relation between identity keys (all labels    *)
(* after relabeling + URL, as the specification computes them) and real hashes over     *)
(* the whole run (and a second pass in other processes).                                *)
EXTENDS Integers, Sequences, FiniteSets, TLC, Json, IOUtils, SequencesExt

Obs == ndJsonDeserialize("obs.ndjson")
Groups == ndJsonDeserialize("groups.ndjson")
Rng(s) == {s[k] : k \in DOMAIN s}
Canon(x) == [labels |-> Rng(x.labels), scheme |-> x.url.scheme, host |-> x.url.host, path |-> x.url.path, query |-> Rng(x.url.query)]
CSet(s) == {Canon(s[k]) : k \in DOMAIN s}

\* C02: the targets (final labels + URL really requested) of the sharded path are exactly those of plain Prometheus
C02(o) ==
  LET p == CSet(o.plain)
      s == CSet(o.sharded)
  IN (IF Len(o.sharded) # Cardinality(s) THEN {"sharded-duplicate"} ELSE {})
     \cup (IF s \ p # {} /\ {[x EXCEPT !.query = {}] : x \in s} = {[x EXCEPT !.query = {}] : x \in p} THEN {"query-differs"} ELSE {})
     \cup (IF s # p /\ {x.labels : x \in s} # {x.labels : x \in p} THEN {"labels-differ"} ELSE {})
     \cup (IF s # p /\ {x.labels : x \in s} = {x.labels : x \in p}
              /\ {[x EXCEPT !.query = {}] : x \in s} # {[x EXCEPT !.query = {}] : x \in p} THEN {"url-differs"} ELSE {})
     \cup (IF p # {} /\ s = {} THEN {"target-missing"} ELSE {})
     \cup (IF p = {} /\ s # {} THEN {"target-not-dropped"} ELSE {})
     \cup (IF ~o.twinKept THEN {"targets-with-equal-visible-labels-collapsed"} ELSE {})

\* C15
C15(o) == (IF ~o.hashStable THEN {"hash-changes-with-arrangement-or-round"} ELSE {})
          \cup (IF Len(o.hashes) # 1 THEN {"not-exactly-one-hash"} ELSE {})
          \cup (IF ~o.collapsed THEN {"equal-entries-do-not-collapse"} ELSE {})
C15G(g) == CASE g.kind = "key"  -> IF Len(g.members) # 1 THEN {"same-identity-different-hashes"} ELSE {}
             [] g.kind = "hash" -> IF Len(g.members) # 1 THEN {"different-identities-same-hash"} ELSE {}

Viol == UNION {{[prop |-> "C02", n |-> Obs[k].n, which |-> w] : w \in C02(Obs[k].obs)} : k \in DOMAIN Obs}
        \cup UNION {{[prop |-> "C15", n |-> Obs[k].n, which |-> w] : w \in C15(Obs[k].obs)} : k \in DOMAIN Obs}
        \cup UNION {{[prop |-> "C15", n |-> -1, which |-> w, group |-> Groups[k]] : w \in C15G(Groups[k])} : k \in DOMAIN Groups}
ASSUME ndJsonSerialize("viol.ndjson", SetToSeq(Viol))
ASSUME ndJsonSerialize("evalstats.ndjson", <<[cases |-> Len(Obs), groups |-> Len(Groups)]>>)
=============================================================================
