------------------------------ MODULE ProxyEval ------------------------------
(* Verdict step of C12 / C13: TLC evaluates the formulas of ProxyStream on what   *)
(* the real proxy did in every replayed scenario (obs.ndjson: scenario, model      *)
(* outcome, observed outcome).                                                     *)
EXTENDS ProxyProps, TLC, Json, IOUtils, SequencesExt

Obs == ndJsonDeserialize("obs.ndjson")
Sc(k) == LET s == Obs[k].sc IN [s EXCEPT !.cuts = {s.cuts[i] : i \in DOMAIN s.cuts}]

C13Which(s, o) ==
  (IF (RealFailed(s) \/ s.stop) /\ ~(o.status # 200 \/ o.aborted) THEN {"complete-200-after-failure"} ELSE {})
  \cup (IF s.assigned /\ (RealFailed(s) \/ s.stop) /\ ~(o.health = "down" /\ o.errset) THEN {"health-not-down"} ELSE {})
  \cup (IF s.assigned /\ ~RealFailed(s) /\ ~s.stop /\ s.werr = 0 /\ ~(o.health = "up" /\ ~o.errset) THEN {"health-not-up"} ELSE {})
  \cup (IF o.counted # (IF s.assigned THEN 1 ELSE 0) THEN {"counter"} ELSE {})
C12Which(s, o) ==
  (IF ~C12(s, o) THEN {"not-exact-200"} ELSE {})
  \cup (IF ~C12Prefix(s, o) THEN {"not-a-prefix"} ELSE {})

Viol == UNION {
   {[idx |-> k, prop |-> "C12", which |-> w] : w \in C12Which(Sc(k), Obs[k].obs)}
   \cup {[idx |-> k, prop |-> "C13", which |-> w] : w \in C13Which(Sc(k), Obs[k].obs)}
   : k \in DOMAIN Obs}

NonTrivial ==
  [C12 |-> Cardinality({k \in DOMAIN Obs : LET s == Sc(k) IN ~RealFailed(s) /\ ~s.stop /\ s.werr = 0}),
   C13 |-> Cardinality({k \in DOMAIN Obs : LET s == Sc(k) IN RealFailed(s) \/ s.stop})]

ASSUME ndJsonSerialize("viol.ndjson", SetToSeq(Viol))
ASSUME ndJsonSerialize("evalstats.ndjson", <<[cases |-> Len(Obs), nontrivial |-> NonTrivial]>>)
=============================================================================
