------------------------------ MODULE ProxyPair ------------------------------
(***************************************************************************)
(* Two scrapes proxied by the same sidecar at the same time: two instances of   *)
(* ProxyStream whose steps interleave in any order.  The instances share         *)
(* nothing - each scrape has its own request, decoder, tee and status entry -    *)
(* so every scrape ends exactly as it would alone; that is the design the code    *)
(* (per-request Scraper, pooled gzip readers handed out to one scrape at a time)   *)
(* has to follow.  hist records the interleaving: it is the schedule the harness    *)
(* replays on the real proxy with gated upstream bodies.                            *)
(***************************************************************************)
EXTENDS ProxyProps, TLC, Json, IOUtils, CSV, SequencesExt

CONSTANTS AbortAfterHeaders, ResetIsEOF, PairScenarios, OutFile

VARIABLES scA, stageA, posA, fwdA, writesA, hdrA, errA, ctypeA, outA,
          scB, stageB, posB, fwdB, writesB, hdrB, errB, ctypeB, outB,
          hist

varsA == <<scA, stageA, posA, fwdA, writesA, hdrA, errA, ctypeA, outA>>
varsB == <<scB, stageB, posB, fwdB, writesB, hdrB, errB, ctypeB, outB>>
vars == <<varsA, varsB, hist>>

A == INSTANCE ProxyStream WITH Scenarios <- PairScenarios, sc <- scA, stage <- stageA, pos <- posA, fwd <- fwdA,
       writes <- writesA, hdrSent <- hdrA, err <- errA, ctype <- ctypeA, out <- outA
B == INSTANCE ProxyStream WITH Scenarios <- PairScenarios, sc <- scB, stage <- stageB, pos <- posB, fwd <- fwdB,
       writes <- writesB, hdrSent <- hdrB, err <- errB, ctype <- ctypeB, out <- outB

Init == A!Init /\ B!Init /\ hist = <<>>

StepA == \/ A!Request /\ hist' = Append(hist, <<"A", "request">>)
         \/ A!Read    /\ hist' = Append(hist, <<"A", "read">>)
         \/ A!Finish  /\ hist' = Append(hist, <<"A", "finish">>)
StepB == \/ B!Request /\ hist' = Append(hist, <<"B", "request">>)
         \/ B!Read    /\ hist' = Append(hist, <<"B", "read">>)
         \/ B!Finish  /\ hist' = Append(hist, <<"B", "finish">>)
BothDone == stageA = "done" /\ stageB = "done"
Next == \/ StepA /\ UNCHANGED varsB
        \/ StepB /\ UNCHANGED varsA
        \/ BothDone /\ UNCHANGED vars
Spec == Init /\ [][Next]_vars

\* the two scrapes really overlap in this behaviour: one starts before the other has finished
Overlap == \E i, j \in DOMAIN hist : i < j /\ hist[i][1] # hist[j][1] /\ hist[i][2] = "request"
             /\ ~\E k \in 1..j : hist[k] = <<hist[i][1], "finish">>

WithExact(s, o) == o @@ [exact |-> o.fwd = s.len, prefix |-> TRUE]
J(s) == [s EXCEPT !.cuts = SetToSortSeq(s.cuts, <)]
Export == BothDone =>
  CSVWrite("%1$s", <<ToJson([scA |-> J(scA), scB |-> J(scB), outA |-> WithExact(scA, outA), outB |-> WithExact(scB, outB),
                             hist |-> hist, overlap |-> Overlap])>>, OutFile)
\* each scrape keeps its guarantees next to the other one
Inv_Pair == BothDone => /\ C12(scA, WithExact(scA, outA)) /\ C13(scA, WithExact(scA, outA))
                        /\ C12(scB, WithExact(scB, outB)) /\ C13(scB, WithExact(scB, outB))
=============================================================================
