------------------------------ MODULE ProxyProps ------------------------------
(* The formulas of C12 and C13 over a scenario s (what the target and the          *)
(* Prometheus side did) and an outcome o (what Prometheus received and what the      *)
(* status entry shows).  No variables: evaluated on the terminal states of the       *)
(* model ProxyStream and on the observations recorded from the real proxy.           *)
EXTENDS Integers, Sequences, FiniteSets

PreKinds  == {"connect", "non200", "timeout0"}
BodyKinds == {"eof", "reset", "timeout", "other"}

(* The real scrape failed: judged from the scenario alone (what the target did), not from   *)
(* what the proxy made of it.                                                               *)
RealFailed(s) == \/ s.fail.kind \in PreKinds
                 \/ s.fail.kind \in BodyKinds /\ s.fail.off < s.len
(* the run is a Prometheus-side failure only (client went away): outside C12 / C13 *)
PromSideOnly(s) == ~RealFailed(s) /\ s.werr # 0

(* C12 / C13 as formulas over a scenario s and an outcome o (model: out; implementation:    *)
(* what the harness observed).  o.fwd counts forwarded units; o.prefix says the forwarded     *)
(* bytes are a prefix of the served (decoded) body, o.exact that they are all of it.          *)
C12(s, o) ==
  /\ (~RealFailed(s) /\ ~s.stop /\ ~s.flip /\ s.werr = 0) =>
        /\ o.status = 200 /\ ~o.aborted /\ o.exact /\ o.ctype
  \* whatever else happens: a complete 200 for a real scrape that succeeded carries the exact body
  /\ (~RealFailed(s) /\ s.werr = 0 /\ o.status = 200 /\ ~o.aborted) => o.exact
C12Prefix(s, o) == o.prefix
C13(s, o) ==
  /\ (RealFailed(s) \/ s.stop) => (o.status # 200 \/ o.aborted)
  /\ (s.assigned /\ (RealFailed(s) \/ s.stop)) => (o.health = "down" /\ o.errset)
  /\ (s.assigned /\ ~RealFailed(s) /\ ~s.stop /\ s.werr = 0) => (o.health = "up" /\ ~o.errset)
  /\ o.counted = (IF s.assigned THEN 1 ELSE 0)
=============================================================================
