----------------------------- MODULE ProxyStream -----------------------------
(***************************************************************************)
(* One scrape proxied by the sidecar (pkg/sidecar/proxy.go ServeHTTP,       *)
(* pkg/scrape/scraper.go RequestTo / ParseResponse, pkg/scrape/reader.go     *)
(* tee), as a streaming state machine: real request, response status and     *)
(* headers, body read chunk by chunk, every chunk forwarded to Prometheus     *)
(* with possibly short writes, failure at any stage or offset, administrative *)
(* stop, bookkeeping in the target's status entry.                            *)
(*                                                                          *)
(* A scenario sc fixes everything the environment decides:                    *)
(*   len      body length in units (after decompression)                      *)
(*   cuts     set of offsets at which the upstream read returns (chunking)    *)
(*   enc      "identity" | "gzip"                                             *)
(*   fail     [kind, off]: "none" | "connect" | "non200" | "timeout0" (before  *)
(*            headers) | "eof" | "reset" | "timeout" | "other" (body breaks    *)
(*            off after off units of the transported stream)                   *)
(*   short    0: a write accepts everything; n > 0: at most n units per write  *)
(*   werr     always 0 (Prometheus-side write errors are outside C12 / C13; the *)
(*            field is kept so that the formulas can exclude such runs)         *)
(*   stop     scraping administratively stopped when the scrape starts          *)
(*   flip     while the target is answering, the stop setting is toggled (the     *)
(*            code reads it once, at the start: no effect on this scrape) and a   *)
(*            new assignment arrives that keeps the target and adds another one    *)
(*            (the target's status entry is carried over: the bookkeeping of the    *)
(*            scrape under way goes to the entry that is reported afterwards)       *)
(*   assigned the target has a status entry on this shard                      *)
(*                                                                          *)
(* Constants pin the two places where code and property disagree(d):          *)
(*   AbortAfterHeaders  a failure after the first forwarded byte aborts the    *)
(*                      response (TRUE) or ends it normally as a complete 200  *)
(*   ResetIsEOF         an upstream "connection reset by peer" is taken for    *)
(*                      the end of the body (TRUE, the VictoriaMetrics reader) *)
(***************************************************************************)
EXTENDS ProxyProps

CONSTANTS AbortAfterHeaders, ResetIsEOF, Scenarios

VARIABLES sc, stage, pos, fwd, writes, hdrSent, err, ctype, out

vars == <<sc, stage, pos, fwd, writes, hdrSent, err, ctype, out>>

MinOf(S) == CHOOSE x \in S : \A y \in S : x <= y

Init ==
  /\ sc \in Scenarios
  /\ stage = "start" /\ pos = 0 /\ fwd = 0 /\ writes = 0 /\ hdrSent = FALSE
  /\ err = "none" /\ ctype = FALSE /\ out = <<>>

(* RequestTo *)
Request ==
  /\ stage = "start"
  /\ IF sc.fail.kind \in PreKinds
       THEN err' = sc.fail.kind /\ stage' = "finish" /\ ctype' = FALSE
     ELSE IF sc.enc = "gzip" /\ sc.fail.kind \in BodyKinds /\ sc.fail.off = 0
       THEN \* the gzip header cannot be read: RequestTo fails, whatever the kind of error
            err' = sc.fail.kind /\ stage' = "finish" /\ ctype' = FALSE
       ELSE err' = err /\ stage' = "stream" /\ ctype' = TRUE     \* Content-Type copied before streaming
  /\ UNCHANGED <<sc, pos, fwd, writes, hdrSent, out>>

(* one Read of the tee: the upstream returns the next chunk (or fails / ends), the chunk is *)
(* written to Prometheus in a loop of possibly short writes                                 *)
FailHere == sc.fail.kind \in BodyKinds /\ sc.fail.off = pos
NextCut  == MinOf({c \in sc.cuts \cup {sc.len} \cup (IF sc.fail.kind \in BodyKinds THEN {sc.fail.off} ELSE {}) : c > pos})

\* number of write calls needed for n units (short writes: at most sc.short units per call)
WritesFor(n) == IF sc.short = 0 THEN 1 ELSE (n + sc.short - 1) \div sc.short

Read ==
  /\ stage = "stream"
  /\ IF FailHere
       THEN /\ IF sc.fail.kind = "reset" /\ ResetIsEOF
                 THEN err' = err               \* taken for the end of the stream
                 ELSE err' = sc.fail.kind
            /\ stage' = "finish"
            /\ UNCHANGED <<pos, fwd, writes, hdrSent>>
     ELSE IF pos = sc.len
       THEN stage' = "finish" /\ UNCHANGED <<pos, fwd, writes, hdrSent, err>>
     ELSE LET n == NextCut - pos IN
          IF sc.stop
            THEN \* no raw writer: read and parsed, nothing forwarded
                 pos' = NextCut /\ UNCHANGED <<stage, fwd, writes, hdrSent, err>>
          ELSE /\ fwd' = fwd + n /\ writes' = writes + WritesFor(n) /\ hdrSent' = TRUE
                 /\ pos' = NextCut /\ UNCHANGED <<stage, err>>
  /\ UNCHANGED <<sc, ctype, out>>

(* the deferred completion of ServeHTTP *)
Finish ==
  /\ stage = "finish"
  /\ LET failed == err # "none"
         status == IF failed THEN (IF hdrSent THEN 200 ELSE 400)
                   ELSE IF sc.stop THEN 400 ELSE 200
         abort  == failed /\ hdrSent /\ AbortAfterHeaders
     IN out' = [status   |-> status,
                aborted  |-> abort,
                fwd      |-> fwd,
                ctype    |-> ctype /\ status = 200,
                counted  |-> IF sc.assigned THEN 1 ELSE 0,
                health   |-> IF ~sc.assigned THEN "none" ELSE IF failed \/ sc.stop THEN "down" ELSE "up",
                errset   |-> sc.assigned /\ (failed \/ sc.stop)]
  /\ stage' = "done"
  /\ UNCHANGED <<sc, pos, fwd, writes, hdrSent, err, ctype>>

Done == stage = "done" /\ UNCHANGED vars
Next == Request \/ Read \/ Finish \/ Done
Spec == Init /\ [][Next]_vars

=============================================================================
