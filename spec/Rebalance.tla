------------------------------ MODULE Rebalance ------------------------------
(***************************************************************************)
(* One coordination cycle of one replica (pkg/coordinator: runOnce body    *)
(* for one shard.Manager, rebalance.go, pkg/shard/shard.go UpdateTarget),   *)
(* step by step.  Written implementation-shaped: one action per code step,  *)
(* every Go map-iteration order and every weighted-random pick is a         *)
(* nondeterministic choice, so that for a fixed input TLC enumerates ALL     *)
(* outcomes the code may produce.                                          *)
(*                                                                         *)
(* The input of a cycle is one record `in' (what the shards answer, what is *)
(* discovered, what the explorer knows, the options, which requests fail).  *)
(* The outcome is the record Out (requests per shard, bodies of the target  *)
(* POSTs, arguments of ChangeScale).  Both have the same JSON shape as the   *)
(* observations recorded by the Go harness from the real Coordinator, so    *)
(* the property operators of RebalanceProps apply to both.                  *)
(*                                                                         *)
(* Constants name the places where the code's behaviour is a choice that    *)
(* the conformance check pins to the current /repo:                         *)
(*   MinWait               minWaitScrapeTimes                               *)
(*   HeadReliefChecksProc  head-series relief also checks the process limit *)
(*   TooBigUsesTotal       isTooBig also compares TotalSeries with MaxProcess*)
(*   EarlyByShardCount     early ChangeScale(MinShard) iff #shards < MinShard *)
(*                         (FALSE: iff #in-sync shards < MinShard)            *)
(*   TailNeedsEmpty        an expired idle tail shard is removed only if its  *)
(*                         planned set is empty                               *)
(*   TieBreakByOrder       of two equally loaded shards scraping the same target  *)
(*                         in the same state, the later one drops its copy       *)
(*   TooBigSkipped         relief leaves too big targets out of what it has to shed from the   *)
(*                         start and passes over them (head relief of a shard holding one     *)
(*                         reports no needed room) instead of giving the shard up when it      *)
(*                         meets one, so that whether it acts does not depend on the order      *)
(*   ZeroNeedsPlace        an unplaced target whose estimate is 0 / 0 counts as needed  *)
(*                         space (1), so that a shard is requested for it                *)
(*   RevertOrphanTransfer  an in_transfer copy (scraped MinWait times) that no other   *)
(*                         in-sync shard holds is put back to normal state         *)
(*   TooBigFirst           relief stops at a too big target before looking at  *)
(*                         whether the target is a candidate for moving        *)
(* The pinned tree was (0, FALSE, FALSE, FALSE, FALSE, FALSE); the repaired    *)
(* tree (fix: commits, see known_findings.json) is (3, TRUE, ..., TRUE).       *)
(***************************************************************************)
EXTENDS Integers, Sequences, FiniteSets, TLC, SequencesExt

CONSTANTS TooBigSkipped, ZeroNeedsPlace, MinWait, HeadReliefChecksProc, TooBigUsesTotal, EarlyByShardCount, TailNeedsEmpty, TooBigFirst, TieBreakByOrder, RevertOrphanTransfer,
          InputSet            \* set of input records explored by this run

VARIABLES in,        \* the input record (constant during a behaviour)
          pc,        \* phase
          ch,        \* ch[i]   : shard i is changeable (ready, reachable, in sync)
          pl,        \* pl[i]   : planned set of shard i: target -> entry
          ld,        \* ld[i]   : running load [head, proc]
          idl,       \* idl[i]  : idle report as fetched: "none" | "fresh" | "expired"
          need,      \* [head, proc] space still needed
          cur,       \* loop index (shard)
          vis,       \* targets already visited by the inner loop
          tot,       \* running total of the relief loop
          sps,       \* spare room per shard in shardCanBeIdle
          scale,     \* scale being computed
          reqs,      \* reqs[i] : sequence of request kinds shard i received
          posts,     \* posts[i]: [sent, ok, targets]
          scales     \* sequence of ChangeScale arguments

vars == <<in, pc, ch, pl, ld, idl, need, cur, vis, tot, sps, scale, reqs, posts, scales>>

-----------------------------------------------------------------------------
(* helpers *)
Rg(s)   == {s[k] : k \in DOMAIN s}
N          == Len(in.shards)
Shards     == 1..N
Opt        == in.opts
MaxHead    == Opt.maxHead
MaxProc    == Opt.maxProc
Active     == Rg(in.active)
Max2(a, b) == IF a > b THEN a ELSE b

\* report of shard i as a function target -> entry (without the field t)
\* src: whose status object the entry is - the shard's own answer ("shard"), a copy made by a transfer ("copy"),
\* or the explorer's object ("explorer"): the published global status refers to objects, and transfers mutate them
Entry(r)   == [state |-> r.state, health |-> r.health, times |-> r.times,
               series |-> r.series, total |-> r.total, src |-> "shard"]
Rep(i)     == LET rs == Rg(in.shards[i].report)
              IN  [t \in {r.t : r \in rs} |-> Entry(CHOOSE r \in rs : r.t = t)]
Expl       == LET es == Rg(in.explore)
              IN  [t \in {e.t : e \in es} |-> CHOOSE e \in es : e.t = t]

EmptyFn    == [t \in {} |-> 0]
Mode(i)    == in.shards[i].mode
ZeroLoad   == [head |-> 0, proc |-> 0]
RealLoad(i)== [head |-> in.shards[i].head, proc |-> in.shards[i].proc]

(* A.1 what getOneShardInfo leaves behind, per mode *)
FetchReqs(i) ==
  CASE Mode(i) = "notready"   -> <<>>
    [] Mode(i) = "statusfail" -> <<"status">>
    [] Mode(i) = "rtfail"     -> <<"status", "rt">>
    [] Mode(i) = "ok"         -> <<"status", "rt">>
    [] Mode(i) = "pushfail"   -> <<"status", "rt", "cfg">>
    [] Mode(i) = "rt2fail"    -> <<"status", "rt", "cfg", "rt">>
    [] Mode(i) = "stale"      -> <<"status", "rt", "cfg", "rt">>
    [] Mode(i) = "pushok"     -> <<"status", "rt", "cfg", "rt">>
FetchCh(i)   == Mode(i) \in {"ok", "pushok"}
FetchPl(i)   == IF Mode(i) \in {"notready", "statusfail"} THEN EmptyFn ELSE Rep(i)
FetchLd(i)   == IF Mode(i) \in {"ok", "pushok", "pushfail", "stale"} THEN RealLoad(i) ELSE ZeroLoad
FetchIdl(i)  == IF Mode(i) \in {"ok", "pushok", "pushfail", "stale"} THEN in.shards[i].idle ELSE "none"

Changeable   == {i \in Shards : ch[i]}
Eligible(e)  == e.state = "" /\ e.health = "up" /\ e.times >= MinWait

\* sum of f(e) over the eligible entries of function p
RECURSIVE SumOver(_, _, _)
SumOver(p, S, field) ==
  IF S = {} THEN 0
  ELSE LET t == CHOOSE x \in S : TRUE
       IN  (IF Eligible(p[t]) THEN (IF field = "series" THEN p[t].series ELSE p[t].total) ELSE 0)
           + SumOver(p, S \ {t}, field)
TotalHead(i) == SumOver(pl[i], DOMAIN pl[i], "series")
TotalProc(i) == SumOver(pl[i], DOMAIN pl[i], "total")

HeadRoom(l, e) == MaxHead = 0 \/ l.head + e.series < MaxHead
ProcRoom(l, e) == l.proc + e.total < MaxProc

\* first element of a set of naturals
MinOf(S) == CHOOSE x \in S : \A y \in S : x <= y

Transfer(from, to, t) ==
  LET e == pl[from][t] IN
  /\ ld' = [ld EXCEPT ![to] = [head |-> @.head + e.series, proc |-> @.proc + e.total]]
  /\ pl' = [pl EXCEPT ![from] = [@ EXCEPT ![t].state = "in_transfer"],
                      ![to]   = [x \in (DOMAIN @) \cup {t} |-> IF x = t THEN [e EXCEPT !.src = "copy"] ELSE @[x]]]

-----------------------------------------------------------------------------
Init ==
  /\ in \in InputSet
  /\ pc = "fetch"
  /\ ch = <<>> /\ pl = <<>> /\ ld = <<>> /\ idl = <<>>
  /\ need = ZeroLoad /\ cur = 0 /\ vis = {} /\ tot = 0 /\ sps = <<>> /\ scale = 0
  /\ reqs = <<>> /\ posts = <<>> /\ scales = <<>>

Fetch ==
  /\ pc = "fetch"
  /\ ch'   = [i \in Shards |-> FetchCh(i)]
  /\ pl'   = [i \in Shards |-> FetchPl(i)]
  /\ ld'   = [i \in Shards |-> FetchLd(i)]
  /\ idl'  = [i \in Shards |-> FetchIdl(i)]
  /\ reqs' = [i \in Shards |-> FetchReqs(i)]
  /\ posts' = [i \in Shards |-> [sent |-> FALSE, ok |-> FALSE, targets |-> {}]]
  /\ pc' = "early"
  /\ UNCHANGED <<in, need, cur, vis, tot, sps, scale, scales>>

(* A.2 *)
Early ==
  /\ pc = "early"
  /\ IF (IF EarlyByShardCount THEN N ELSE Cardinality(Changeable)) < Opt.minShard
       THEN /\ scales' = Append(scales, Opt.minShard)
            /\ pc' = IF in.failScale = 1 THEN "done" ELSE "gc"
       ELSE /\ scales' = scales
            /\ pc' = "gc"
  /\ UNCHANGED <<in, ch, pl, ld, idl, need, cur, vis, tot, sps, scale, reqs, posts>>

(* A.4 garbage collection: deterministic (decisions for different targets are   *)
(* independent, and for one target the shards are visited in slice order).      *)
GcRemoves(p, s, t) ==   \* does shard s drop t, given current planned sets p
  \/ t \notin Active
  \/ /\ p[s][t].times >= MinWait
     /\ LET others == {o \in Changeable \ {s} : t \in DOMAIN p[o] /\ p[o][t].times >= MinWait}
            \* the inner loop breaks at the first `other' that triggers a rule
            hit(o) == \/ p[s][t].state = "in_transfer" /\ p[o][t].state = ""
                      \/ /\ p[s][t].state = p[o][t].state
                         /\ LET lo == IF MaxHead # 0 THEN ld[o].head ELSE ld[o].proc
                                ls == IF MaxHead # 0 THEN ld[s].head ELSE ld[s].proc
                            IN lo < ls \/ (TieBreakByOrder /\ lo = ls /\ o < s)
        IN \E o \in others : hit(o)

RECURSIVE GcShard(_, _, _)
GcShard(p, s, S) ==    \* process the targets S of shard s (any order: independent)
  IF S = {} THEN p
  ELSE LET t == CHOOSE x \in S : TRUE
           orphan == /\ RevertOrphanTransfer /\ t \in Active /\ p[s][t].times >= MinWait /\ p[s][t].state = "in_transfer"
                     /\ ~\E o \in Changeable \ {s} : t \in DOMAIN p[o]
           p2 == IF GcRemoves(p, s, t)
                   THEN [p EXCEPT ![s] = [x \in (DOMAIN @) \ {t} |-> @[x]]]
                 ELSE IF orphan THEN [p EXCEPT ![s][t].state = ""]
                   ELSE p
       IN GcShard(p2, s, S \ {t})
RECURSIVE GcAll(_, _)
GcAll(p, s) == IF s > N THEN p
               ELSE IF ch[s] THEN GcAll(GcShard(p, s, DOMAIN p[s]), s + 1)
                             ELSE GcAll(p, s + 1)
Gc ==
  /\ pc = "gc"
  /\ pl' = GcAll(pl, 1)
  /\ pc' = IF Opt.noAlleviate THEN "assign" ELSE "allevP"
  /\ cur' = 1 /\ vis' = {} /\ tot' = -1
  /\ UNCHANGED <<in, ch, ld, idl, need, sps, scale, reqs, posts, scales>>

(* A.5 relief pass 1: process series.  tot = -1 means "inner loop not started" *)
ProcTooBig(e) == e.total > MaxProc
ProcElig(e)   == Eligible(e) /\ e.total # 0
\* what the relief of shard i has to shed: the counted targets, without those that are too big (TooBigSkipped)
ShedProc(i) == TotalProc(i) - (IF TooBigSkipped THEN SumOver(pl[i], {t \in DOMAIN pl[i] : ProcTooBig(pl[i][t])}, "total") ELSE 0)
NextShardP == /\ cur' = cur + 1 /\ vis' = {} /\ tot' = -1
AllevP ==
  /\ pc = "allevP"
  /\ IF cur > N
       THEN /\ pc' = IF MaxHead # 0 THEN "allevH" ELSE "assign"
            /\ cur' = 1 /\ vis' = {} /\ tot' = -1
            /\ UNCHANGED <<pl, ld, need>>
     ELSE IF ~ch[cur] \/ ld[cur].proc < MaxProc
       THEN NextShardP /\ UNCHANGED <<pc, pl, ld, need>>
     ELSE IF tot = -1
       THEN \* alleviateShardProcessSeries entry
            IF ShedProc(cur) <= MaxProc
              THEN NextShardP /\ UNCHANGED <<pc, pl, ld, need>>
              ELSE tot' = ShedProc(cur) /\ UNCHANGED <<pc, cur, vis, pl, ld, need>>
     ELSE LET cand == {t \in (DOMAIN pl[cur]) \ vis : ProcElig(pl[cur][t]) \/ (TooBigFirst /\ ProcTooBig(pl[cur][t]))} IN
          IF tot <= MaxProc \/ cand = {}
            THEN /\ need' = [need EXCEPT !.proc = @ + (IF tot > MaxProc THEN tot - MaxProc ELSE 0)]
                 /\ NextShardP /\ UNCHANGED <<pc, pl, ld>>
            ELSE \E t \in cand :
                   LET e == pl[cur][t]
                       dst == {o \in Changeable \ {cur} : HeadRoom(ld[o], e) /\ ProcRoom(ld[o], e)}
                   IN IF ProcTooBig(e)
                        THEN IF TooBigSkipped
                               THEN \* it stays whatever else is moved: not part of what this relief can shed
                                    vis' = vis \cup {t} /\ UNCHANGED <<pc, cur, tot, pl, ld, need>>
                               ELSE NextShardP /\ UNCHANGED <<pc, pl, ld, need>>   \* return 0
                      ELSE IF dst = {}
                        THEN vis' = vis \cup {t} /\ UNCHANGED <<pc, cur, tot, pl, ld, need>>
                      ELSE /\ Transfer(cur, MinOf(dst), t)
                           /\ tot' = tot - e.total
                           /\ vis' = vis \cup {t}
                           /\ UNCHANGED <<pc, cur, need>>
  /\ UNCHANGED <<in, ch, idl, sps, scale, reqs, posts, scales>>

(* A.5 relief pass 2: head series *)
HeadTooBig(e) == e.series > MaxHead \/ (HeadReliefChecksProc /\ e.total > MaxProc)
ShedHead(i) == TotalHead(i) - (IF TooBigSkipped THEN SumOver(pl[i], {t \in DOMAIN pl[i] : HeadTooBig(pl[i][t])}, "series") ELSE 0)
Rate(x, num) == (x * num) \div 10        \* int64(float64(x) * (num/10)) for the x in use
HeadExp(h) ==   \* expected head series for running head h, or -1 if no threshold matches
  IF h >= Rate(MaxHead, 18) THEN 0
  ELSE IF h >= Rate(MaxHead, 16) THEN Rate(MaxHead, 2)
  ELSE IF h >= Rate(MaxHead, 14) THEN Rate(MaxHead, 5)
  ELSE IF h >= Rate(MaxHead, 11) THEN MaxHead
  ELSE -1
AllevH ==
  /\ pc = "allevH"
  /\ IF cur > N
       THEN /\ pc' = "assign" /\ cur' = 1 /\ vis' = {} /\ tot' = -1
            /\ UNCHANGED <<pl, ld, need, sps>>
     ELSE IF ~ch[cur] \/ (tot = -1 /\ HeadExp(ld[cur].head) = -1)
       THEN NextShardP /\ UNCHANGED <<pc, pl, ld, need, sps>>
     ELSE IF tot = -1
       THEN \* alleviateShardHeadSeries entry; the expectation is fixed at entry (sps holds it)
            LET ex == HeadExp(ld[cur].head) IN
            IF ShedHead(cur) <= ex
              THEN NextShardP /\ UNCHANGED <<pc, pl, ld, need, sps>>
              ELSE tot' = ShedHead(cur) /\ sps' = <<ex>> /\ UNCHANGED <<pc, cur, vis, pl, ld, need>>
     ELSE LET ex   == sps[1]
              cand == {t \in (DOMAIN pl[cur]) \ vis : Eligible(pl[cur][t]) \/ (TooBigFirst /\ HeadTooBig(pl[cur][t]))} IN
          IF tot <= ex \/ cand = {}
            THEN \* the expectation was chosen from a load the too big target is part of: with one passed over, what is left
                 \* is not reported as needed room
                 /\ need' = [need EXCEPT !.head = @ + (IF tot > ex /\ ~(TooBigSkipped /\ \E t \in DOMAIN pl[cur] : HeadTooBig(pl[cur][t])) THEN tot - ex ELSE 0)]
                 /\ NextShardP /\ UNCHANGED <<pc, pl, ld, sps>>
            ELSE \E t \in cand :
                   LET e == pl[cur][t]
                       dst == {o \in Changeable \ {cur} :
                                 /\ ld[o].head + e.series < MaxHead
                                 /\ (HeadReliefChecksProc => ProcRoom(ld[o], e))}
                   IN IF HeadTooBig(e)
                        THEN IF TooBigSkipped
                               THEN vis' = vis \cup {t} /\ UNCHANGED <<pc, cur, tot, pl, ld, need, sps>>
                               ELSE NextShardP /\ UNCHANGED <<pc, pl, ld, need, sps>>   \* return 0
                      ELSE IF dst = {}
                        THEN vis' = vis \cup {t} /\ UNCHANGED <<pc, cur, tot, pl, ld, need, sps>>
                      ELSE /\ Transfer(cur, MinOf(dst), t)
                           /\ tot' = tot - e.series
                           /\ vis' = vis \cup {t}
                           /\ UNCHANGED <<pc, cur, need, sps>>
  /\ UNCHANGED <<in, ch, idl, scale, reqs, posts, scales>>

(* A.7 assignment of targets nobody scrapes.  `scraping' is computed once, at  *)
(* entry: it is the union of the planned sets at that moment; cur = 1 marks    *)
(* entry and sps then holds that union.                                        *)
TooBig(e) == \/ MaxHead # 0 /\ e.series > MaxHead
             \/ e.series > MaxProc
             \/ TooBigUsesTotal /\ e.total > MaxProc
Room(i, e) == ch[i] /\ HeadRoom(ld[i], e) /\ ProcRoom(ld[i], e)
Assign ==
  /\ pc = "assign"
  /\ IF cur = 1
       THEN /\ sps' = <<UNION {DOMAIN pl[i] : i \in Shards}>>
            /\ cur' = 2 /\ vis' = {}
            /\ UNCHANGED <<pc, pl, ld, need, scale>>
     ELSE LET scraping == sps[1]
              cand == {t \in (Active \ scraping) \ vis :
                         t \in DOMAIN Expl /\ Expl[t].health = "up" /\ ~TooBig(Expl[t])}
          IN IF cand = {}
               THEN /\ pc' = "scale" /\ cur' = 0 /\ vis' = {} /\ sps' = <<>>
                    /\ UNCHANGED <<pl, ld, need, scale>>
               ELSE \E t \in cand :
                      LET x == Expl[t]
                          e == [state |-> x.state, health |-> x.health, times |-> x.times,
                                series |-> x.series, total |-> x.total, src |-> "explorer"]
                          fit == {i \in Shards : Room(i, e)}
                      IN /\ vis' = vis \cup {t}
                         /\ IF fit = {}
                              THEN /\ need' = [head |-> need.head + e.series,
                                                 \* a target that exposes nothing (0 / 0) still needs a place
                                                 proc |-> need.proc + (IF ZeroNeedsPlace /\ e.series = 0 /\ e.total = 0 THEN 1 ELSE e.total)]
                                   /\ UNCHANGED <<pl, ld>>
                              ELSE \E i \in (IF Opt.maxIdle # 0 THEN {MinOf(fit)} ELSE fit) :
                                     /\ ld' = [ld EXCEPT ![i] = [head |-> @.head + e.series, proc |-> @.proc + e.total]]
                                     /\ pl' = [pl EXCEPT ![i] = [y \in (DOMAIN @) \cup {t} |-> IF y = t THEN e ELSE @[y]]]
                                     /\ need' = need
                         /\ UNCHANGED <<pc, cur, sps, scale>>
  /\ UNCHANGED <<in, ch, idl, tot, reqs, posts, scales>>

(* A.8 *)
ScaleUpValue ==
  LET upP == (need.proc \div MaxProc) + 1
      upH == IF MaxHead # 0 THEN (need.head \div MaxHead) + 1 ELSE 0
  IN Max2(Cardinality(Changeable) + Max2(upP, upH), N)

\* number of expired idle changeable shards at the tail
RECURSIVE TailExpired(_)
TailExpired(i) == IF i >= 1 /\ ch[i] /\ idl[i] = "expired" /\ (TailNeedsEmpty => DOMAIN pl[i] = {})
                    THEN 1 + TailExpired(i - 1) ELSE 0

Scale ==
  /\ pc = "scale"
  /\ IF need # ZeroLoad
       THEN scale' = ScaleUpValue /\ pc' = "clamp" /\ UNCHANGED <<cur, vis, sps>>
     ELSE IF Opt.maxIdle # 0
       THEN /\ scale' = N - TailExpired(N)
            /\ cur' = N - TailExpired(N)      \* first shard the emptying loop looks at
            /\ pc' = "down" /\ vis' = {} /\ sps' = <<>>
     ELSE scale' = N /\ pc' = "clamp" /\ UNCHANGED <<cur, vis, sps>>
  /\ UNCHANGED <<in, ch, pl, ld, idl, need, tot, reqs, posts, scales>>

(* tryScaleDown, second loop: positions cur .. 2.  sps = <<>>: deciding what to do with *)
(* shard cur; sps = <<"can", spaces>>: inside shardCanBeIdle; sps = <<"become">>:       *)
(* inside shardBecomeIdle.                                                              *)
Spare(i) == [head |-> MaxHead - ld[i].head, proc |-> MaxProc - ld[i].proc]
Down ==
  /\ pc = "down"
  /\ IF cur <= 1
       THEN pc' = "clamp" /\ UNCHANGED <<cur, vis, sps, pl, ld>>
     ELSE IF sps = <<>>
       THEN IF idl[cur] # "none"
              THEN cur' = cur - 1 /\ UNCHANGED <<pc, vis, sps, pl, ld>>
            ELSE IF ~ch[cur]
              THEN pc' = "clamp" /\ UNCHANGED <<cur, vis, sps, pl, ld>>
            ELSE /\ sps' = <<"can", [i \in {j \in 1..(cur - 1) : ch[j]} |-> Spare(i)]>>
                 /\ vis' = {} /\ UNCHANGED <<pc, cur, pl, ld>>
     ELSE IF sps[1] = "can"
       THEN LET rest == (DOMAIN pl[cur]) \ vis IN
            IF rest = {}
              THEN sps' = <<"become">> /\ vis' = {} /\ UNCHANGED <<pc, cur, pl, ld>>
              ELSE \E t \in rest :
                     LET e == pl[cur][t]
                         sp == sps[2]
                         fit == {i \in DOMAIN sp : (MaxHead = 0 \/ sp[i].head > e.series) /\ sp[i].proc > e.total}
                     IN IF e.state # "" \/ e.times < MinWait \/ fit = {}
                          THEN pc' = "clamp" /\ UNCHANGED <<cur, vis, sps, pl, ld>>     \* return scale
                          ELSE /\ sps' = <<"can", [sp EXCEPT ![MinOf(fit)] =
                                                    [head |-> @.head - e.series, proc |-> @.proc - e.total]]>>
                               /\ vis' = vis \cup {t}
                               /\ UNCHANGED <<pc, cur, pl, ld>>
     ELSE \* become idle
          LET rest == {t \in (DOMAIN pl[cur]) \ vis : pl[cur][t].state = "" /\ pl[cur][t].times >= MinWait} IN
          IF rest = {}
            THEN cur' = cur - 1 /\ sps' = <<>> /\ vis' = {} /\ UNCHANGED <<pc, pl, ld>>
            ELSE \E t \in rest :
                   LET e == pl[cur][t]
                       fit == {i \in 1..(cur - 1) : Room(i, e)}
                   IN IF fit = {}
                        THEN pc' = "clamp" /\ UNCHANGED <<cur, vis, sps, pl, ld>>
                        ELSE /\ Transfer(cur, MinOf(fit), t)
                             /\ vis' = vis \cup {t}
                             /\ UNCHANGED <<pc, cur, sps>>
  /\ UNCHANGED <<in, ch, idl, need, tot, scale, reqs, posts, scales>>

Clamp ==
  /\ pc = "clamp"
  /\ LET s1 == IF scale > Opt.maxShard THEN Opt.maxShard ELSE scale
         s2 == IF s1 < Opt.minShard THEN Opt.minShard ELSE s1
     IN scale' = s2
  /\ pc' = "apply"
  /\ UNCHANGED <<in, ch, pl, ld, idl, need, cur, vis, tot, sps, reqs, posts, scales>>

(* A.9 *)
NewTargets(i) == {[t |-> t, state |-> pl[i][t].state, series |-> pl[i][t].series, total |-> pl[i][t].total] :
                    t \in (DOMAIN pl[i]) \cap Active}
NeedUpdate(i) ==
  LET new == (DOMAIN pl[i]) \cap Active
      old == Rep(i)
  IN \/ Cardinality(new) # Cardinality(DOMAIN old)
     \/ new = {}
     \/ \E t \in new : t \notin DOMAIN old \/ old[t].state # pl[i][t].state
Apply ==
  /\ pc = "apply"
  /\ posts' = [i \in Shards |->
                 IF ch[i] /\ NeedUpdate(i)
                   THEN [sent |-> TRUE, ok |-> ~in.shards[i].postFail, targets |-> NewTargets(i)]
                   ELSE posts[i]]
  /\ reqs'  = [i \in Shards |->
                 IF ~ch[i] THEN reqs[i]
                 ELSE IF NeedUpdate(i)
                   THEN IF in.shards[i].postFail THEN Append(reqs[i], "targets")
                        ELSE reqs[i] \o <<"targets", "extra">>
                 ELSE Append(reqs[i], "extra")]
  /\ scales' = Append(scales, scale)
  /\ pc' = "done"
  /\ UNCHANGED <<in, ch, pl, ld, idl, need, cur, vis, tot, sps, scale>>

Done == pc = "done" /\ UNCHANGED vars

Next == Fetch \/ Early \/ Gc \/ AllevP \/ AllevH \/ Assign \/ Scale \/ Down \/ Clamp \/ Apply \/ Done

Spec == Init /\ [][Next]_vars

-----------------------------------------------------------------------------
(* The published global scrape status (globalScrapeStatus, updateScrapeStatusShards, merge): for every  *)
(* discovered target the status OBJECT of the first shard (any shard that answered) whose entry has a     *)
(* known health, else the explorer's object, else a fresh unknown one - read at the end of the cycle,     *)
(* i.e. with the state a transfer may have written into it - and the in-sync shards planned to hold it.   *)
FirstHolder(t) == LET S == {i \in Shards : t \in DOMAIN FetchPl(i) /\ FetchPl(i)[t].health # "unknown"}
                  IN IF S = {} THEN 0 ELSE MinOf(S)
GlobalOf(t) ==
  LET i == FirstHolder(t) IN
  IF i # 0
    THEN LET r == FetchPl(i)[t]
         IN [health |-> r.health, series |-> r.series, total |-> r.total, times |-> r.times,
             state |-> IF t \in DOMAIN pl[i] /\ pl[i][t].src = "shard" THEN pl[i][t].state ELSE r.state]
  ELSE IF t \in DOMAIN Expl
    THEN LET hs == {k \in Shards : t \in DOMAIN pl[k] /\ pl[k][t].src = "explorer"}
         IN [health |-> Expl[t].health, series |-> Expl[t].series, total |-> Expl[t].total, times |-> Expl[t].times,
             state |-> IF hs = {} THEN Expl[t].state ELSE pl[MinOf(hs)][t].state]
  ELSE [health |-> "unknown", series |-> 0, total |-> 0, times |-> 0, state |-> ""]
\* nothing is published for a replica whose cycle was cut short (early or final scale request failed)
Published == pc = "done" /\ Len(scales) > 0 /\ in.failScale # Len(scales)
GlobalSeq ==
  IF ~Published THEN <<>>
  ELSE LET ord == SetToSortSeq(Active, <)
       IN [k \in DOMAIN ord |-> [t |-> ord[k], shards |-> SetToSortSeq({i \in Changeable : ord[k] \in DOMAIN pl[i]}, <)] @@ GlobalOf(ord[k])]

(* The outcome, in the shape the harness records it *)
Out == [reqs   |-> reqs,
        posts  |-> [i \in Shards |-> [sent |-> posts[i].sent, ok |-> posts[i].ok,
                                      targets |-> SetToSeq(posts[i].targets)]],
        scales |-> scales,
        global |-> GlobalSeq,
        panic  |-> FALSE]
=============================================================================
