---------------------------- MODULE RebalanceEval ----------------------------
(* Verdict step of the cycle checks: TLC evaluates the formulas of            *)
(* RebalanceProps on every (input, outcome) pair recorded from the real        *)
(* Coordinator (pairs.ndjson, one pair per line) and writes every violation    *)
(* found (viol.ndjson) and the non-vacuity counters (evalstats.ndjson).        *)
(* Pure constant evaluation: no behaviour specification.                       *)
EXTENDS RebalanceProps, TLC, Json, IOUtils, SequencesExt

Pairs == ndJsonDeserialize("pairs.ndjson")
Idx   == DOMAIN Pairs
PropIds == {"C01", "C03", "C04", "C05", "C07", "C08", "C20"}

Viol ==
  UNION { LET a == All(Pairs[k].in, Pairs[k].out)
          IN UNION {{[idx |-> k, id |-> Pairs[k].id, prop |-> p, sig |-> s] : s \in a[p]} : p \in PropIds}
        : k \in Idx }

\* the distinct outcomes observed for one input over its repetitions (groups.ndjson: [id, in, outs, idx])
Groups == ndJsonDeserialize("groups.ndjson")
OrderViol ==
  {[idx |-> Groups[g].idx, id |-> Groups[g].id, prop |-> "C03", sig |-> [f |-> "whether-the-cycle-acts-depends-on-the-order"]] :
     g \in {g \in DOMAIN Groups : OrderDependent(Groups[g].in, {Groups[g].outs[k] : k \in DOMAIN Groups[g].outs})}}

\* non-vacuity: on how many distinct inputs is the antecedent of each property exercised
NT(p, i, o) ==
  CASE p = "C01" -> \E k \in Sh(i) : InSync(i, k) /\ Reported(i, k) \cap ActiveSet(i) # {}
    [] p = "C03" -> UnscrapedHealthy(i) # {}
    [] p = "C04" -> \E k \in Sh(i) : New(i, o, k) # {}
    [] p = "C05" -> C05_NonTrivial(i, o)
    [] p = "C07" -> Len(o.scales) > 0
    [] p = "C08" -> C08_NonTrivial(i, o)
    [] p = "C20" -> \E k \in Sh(i) : New(i, o, k) \cap UnscrapedHealthy(i) # {}
NonTrivial == [p \in PropIds |-> Cardinality({Pairs[k].id : k \in {k \in Idx : NT(p, Pairs[k].in, Pairs[k].out)}})]

ASSUME ndJsonSerialize("viol.ndjson", SetToSeq(Viol \cup OrderViol))
ASSUME ndJsonSerialize("evalstats.ndjson", <<[pairs |-> Len(Pairs), nontrivial |-> NonTrivial]>>)
=============================================================================
