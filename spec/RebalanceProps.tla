--------------------------- MODULE RebalanceProps ---------------------------
(***************************************************************************)
(* The cycle-level formulas of properties C01, C04, C05, C07, C08, written  *)
(* once, over an (input, outcome) pair of one coordination cycle of one      *)
(* replica.  They are evaluated by TLC                                       *)
(*   - on every terminal state of the model Rebalance (model checking), and  *)
(*   - on every (input, outcome) pair recorded from the real Coordinator     *)
(*     (module RebalanceEval), which is what produces verdicts.              *)
(* Each operator returns the SET of violation signatures (strings / records) *)
(* it finds, empty when the formula holds, so that a run can list every       *)
(* violation with the sub-formula and the case it falls in.                  *)
(*                                                                         *)
(* Nothing here refers to how the code works; HandoverScrapes is the         *)
(* README's constant (3), not the code's.                                    *)
(***************************************************************************)
EXTENDS Integers, Sequences, FiniteSets

HandoverScrapes == 3

LOCAL Rng(s) == {s[k] : k \in DOMAIN s}

\* ---- vocabulary over an input i ----
NSh(i)        == Len(i.shards)
Sh(i)         == 1..NSh(i)
InSync(i, k)  == i.shards[k].mode \in {"ok", "pushok"}
StatusOK(i,k) == i.shards[k].mode \notin {"notready", "statusfail"}
Reachable(i,k)== i.shards[k].mode \notin {"notready", "statusfail", "rtfail"}
RepRecs(i, k) == Rng(i.shards[k].report)
Reported(i,k) == {r.t : r \in RepRecs(i, k)}
RepOf(i,k,t)  == CHOOSE r \in RepRecs(i, k) : r.t = t
ActiveSet(i)  == Rng(i.active)
ExplRecs(i)   == Rng(i.explore)

\* ---- vocabulary over an outcome o ----
Sent(o, k)    == o.posts[k].sent
PostRecs(o,k) == Rng(o.posts[k].targets)
Posted(o, k)  == {x.t : x \in PostRecs(o, k)}
PostOf(o,k,t) == CHOOSE x \in PostRecs(o, k) : x.t = t
\* what shard k holds after the cycle
After(i,o,k)  == IF Sent(o, k) /\ o.posts[k].ok THEN Posted(o, k) ELSE Reported(i, k)
\* what the coordinator placed on k in this cycle
New(i, o, k)  == IF Sent(o, k) THEN Posted(o, k) \ Reported(i, k) ELSE {}
ReqSet(o, k)  == Rng(o.reqs[k])

-----------------------------------------------------------------------------
(* C01 *)
C01_Orphans(i, o) ==
  {t \in ActiveSet(i) : /\ \E k \in Sh(i) : InSync(i, k) /\ t \in Reported(i, k)
                        /\ ~\E j \in Sh(i) : InSync(i, j) /\ t \in After(i, o, j)}
C01_WronglyTaken(i, o) ==
  {<<k, t>> \in Sh(i) \X ActiveSet(i) :
      /\ InSync(i, k) /\ t \in Reported(i, k) /\ t \notin After(i, o, k)
      /\ ~\E j \in Sh(i) \ {k} : InSync(i, j) /\ t \in Reported(i, j)}
\* "after the cycle" includes the cycle's own scale requests: a shard whose position lies beyond a
\* (successful) request is gone.  The clamp to max-shard of an over-sized replica is the operator's
\* decision (C07 exempts it too) and is not judged here.
Survives(i, o, j) ==
  \A x \in DOMAIN o.scales : (x # i.failScale /\ NSh(i) <= i.opts.maxShard) => j <= o.scales[x]
C01_OrphansByScale(i, o) ==
  {t \in ActiveSet(i) : /\ \E k \in Sh(i) : InSync(i, k) /\ t \in Reported(i, k)
                        /\ \E j \in Sh(i) : InSync(i, j) /\ t \in After(i, o, j)
                        /\ ~\E j \in Sh(i) : InSync(i, j) /\ t \in After(i, o, j) /\ Survives(i, o, j)}
C01(i, o) ==
  {[f |-> "orphan", t |-> t] : t \in C01_Orphans(i, o)}
  \cup {[f |-> "orphan-by-scale-down", t |-> t] : t \in C01_OrphansByScale(i, o)}
  \cup {[f |-> "taken-without-other-copy", k |-> p[1], t |-> p[2]] : p \in C01_WronglyTaken(i, o)}
  \cup (IF o.panic THEN {[f |-> "panic"]} ELSE {})

-----------------------------------------------------------------------------
(* C04.  The weight of a newly placed target is the smallest series / total   *)
(* any source offers for it (a shard's status answer or the explorer), so     *)
(* that the formula never demands more than the statement.                    *)
SeriesCands(i, k, t) ==
  {RepOf(i, j, t).series : j \in {j \in Sh(i) \ {k} : StatusOK(i, j) /\ t \in Reported(i, j)}}
  \cup {e.series : e \in {e \in ExplRecs(i) : e.t = t}}
TotalCands(i, k, t) ==
  {RepOf(i, j, t).total : j \in {j \in Sh(i) \ {k} : StatusOK(i, j) /\ t \in Reported(i, j)}}
  \cup {e.total : e \in {e \in ExplRecs(i) : e.t = t}}
LOCAL MinOf(S) == IF S = {} THEN 0 ELSE CHOOSE x \in S : \A y \in S : x <= y
RECURSIVE SumW(_, _, _, _)
SumW(i, k, S, kind) ==
  IF S = {} THEN 0
  ELSE LET t == CHOOSE x \in S : TRUE
       IN MinOf(IF kind = "series" THEN SeriesCands(i, k, t) ELSE TotalCands(i, k, t))
          + SumW(i, k, S \ {t}, kind)

C04_Overfull(i, o) ==
  {k \in Sh(i) :
     /\ New(i, o, k) # {}
     /\ \/ i.opts.maxHead # 0 /\ i.shards[k].head + SumW(i, k, New(i, o, k), "series") >= i.opts.maxHead
        \/ i.shards[k].proc + SumW(i, k, New(i, o, k), "total") >= i.opts.maxProc}
\* which limit is exceeded on shard k (for the signature)
C04_Which(i, o, k) ==
  [head |-> i.opts.maxHead # 0 /\ i.shards[k].head + SumW(i, k, New(i, o, k), "series") >= i.opts.maxHead,
   proc |-> i.shards[k].proc + SumW(i, k, New(i, o, k), "total") >= i.opts.maxProc]

Oversized(i, t) ==
  \E k \in {0} : \/ i.opts.maxHead # 0 /\ MinOf(SeriesCands(i, k, t)) > i.opts.maxHead
                 \/ MinOf(TotalCands(i, k, t)) > i.opts.maxProc
\* "never causes a scale-up": a scale-up is attributable to oversized targets alone when nothing
\* else can need room: every unscraped healthy target is oversized, and every in-sync shard would
\* be below all relief thresholds without the oversized targets it reports.
UnscrapedHealthy(i) ==
  {t \in ActiveSet(i) : /\ ~\E k \in Sh(i) : StatusOK(i, k) /\ t \in Reported(i, k)
                        /\ \E e \in ExplRecs(i) : e.t = t /\ e.health = "up"}
\* A shard that reports a target which alone exceeds the limit of a dimension stays over that limit
\* whatever else is moved away; if everything else it reports fits under the relief threshold, no
\* need for room in that dimension can be attributed to anything but the oversized target.
RECURSIVE SumRecs(_, _)
SumRecs(S, f) == IF S = {} THEN 0
                 ELSE LET r == CHOOSE x \in S : TRUE
                      IN (IF f = "series" THEN r.series ELSE r.total) + SumRecs(S \ {r}, f)
NoLegitRelief(i, o) ==
  \A k \in Sh(i) : InSync(i, k) =>
     \* (only targets that are still discovered: what a shard still carries of a target that has just left
     \* discovery is ordinary stale load, whatever the size of that target was)
     \* ... and that the shard keeps: a copy that is collected in this very cycle (duplicate) is stale load as well
     LET bigP == {r \in RepRecs(i, k) : r.total > i.opts.maxProc /\ r.t \in ActiveSet(i) /\ r.t \in After(i, o, k)}
         bigH == {r \in RepRecs(i, k) : r.series > i.opts.maxHead /\ r.t \in ActiveSet(i) /\ r.t \in After(i, o, k)}
     IN /\ \/ i.shards[k].proc < i.opts.maxProc
           \/ bigP # {} /\ i.shards[k].proc - SumRecs(bigP, "total") < i.opts.maxProc
        /\ \/ i.opts.maxHead = 0
           \/ i.shards[k].head * 10 < i.opts.maxHead * 11
           \/ bigH # {} /\ (i.shards[k].head - SumRecs(bigH, "series")) * 10 < i.opts.maxHead * 11
AnyOversizedReported(i) ==
  \E k \in Sh(i) : \E r \in RepRecs(i, k) : r.t \in ActiveSet(i) /\ (r.total > i.opts.maxProc \/ (i.opts.maxHead # 0 /\ r.series > i.opts.maxHead))
C04_OversizedScaleUp(i, o) ==
  /\ \A k \in Sh(i) : InSync(i, k)
  /\ NoLegitRelief(i, o)
  /\ \A t \in UnscrapedHealthy(i) : Oversized(i, t)
  /\ (UnscrapedHealthy(i) # {} \/ AnyOversizedReported(i))
  /\ Len(o.scales) > 0
  /\ LET n == o.scales[Len(o.scales)]
         cap == IF NSh(i) > i.opts.minShard THEN NSh(i) ELSE i.opts.minShard
     IN n > cap
C04(i, o) ==
  {[f |-> "overfull", k |-> k, which |-> C04_Which(i, o, k)] : k \in C04_Overfull(i, o)}
  \cup {[f |-> "oversized-placed", k |-> p[1], t |-> p[2]] :
          p \in {p \in Sh(i) \X ActiveSet(i) : p[2] \in New(i, o, p[1]) /\ Oversized(i, p[2])}}
  \cup (IF C04_OversizedScaleUp(i, o) THEN {[f |-> "oversized-scale-up"]} ELSE {})

-----------------------------------------------------------------------------
(* C05 *)
\* in-transfer source copies removed in this cycle
C05_Removed(i, o) ==
  {<<k, t>> \in Sh(i) \X ActiveSet(i) :
      /\ InSync(i, k) /\ t \in Reported(i, k) /\ RepOf(i, k, t).state = "in_transfer"
      /\ t \notin After(i, o, k)}
C05_HandoverDone(i, k, t) ==
  \E j \in Sh(i) \ {k} :
     /\ InSync(i, j) /\ t \in Reported(i, j)
     /\ RepOf(i, j, t).state = ""
     /\ RepOf(i, j, t).times >= HandoverScrapes
     /\ RepOf(i, k, t).times >= HandoverScrapes
\* excluded case: another in-transfer copy exists on an in-sync shard (two sources) - the
\* statement speaks of one source and one destination
C05_TwoSources(i, o, k, t) ==
  \E j \in Sh(i) \ {k} : InSync(i, j) /\ t \in Reported(i, j) /\ RepOf(i, j, t).state = "in_transfer"
C05_Early(i, o) ==
  {p \in C05_Removed(i, o) : ~C05_HandoverDone(i, p[1], p[2]) /\ ~C05_TwoSources(i, o, p[1], p[2])}
\* copies newly marked in-transfer
C05_Marked(i, o) ==
  {<<k, t>> \in Sh(i) \X ActiveSet(i) :
      /\ InSync(i, k) /\ t \in Reported(i, k) /\ RepOf(i, k, t).state = ""
      /\ Sent(o, k) /\ t \in Posted(o, k) /\ PostOf(o, k, t).state = "in_transfer"}
C05_Paired(i, o, k, t) ==
  \E j \in Sh(i) \ {k} :
     /\ InSync(i, j)
     /\ \/ Sent(o, j) /\ t \in Posted(o, j) /\ PostOf(o, j, t).state = ""
        \/ ~Sent(o, j) /\ t \in Reported(i, j) /\ RepOf(i, j, t).state = ""
C05_Unpaired(i, o) == {p \in C05_Marked(i, o) : ~C05_Paired(i, o, p[1], p[2])}
C05_Why(i, k, t) ==
  LET dst == {j \in Sh(i) \ {k} : InSync(i, j) /\ t \in Reported(i, j) /\ RepOf(i, j, t).state = ""}
  IN IF dst = {} THEN "no-destination"
     ELSE IF RepOf(i, k, t).times < HandoverScrapes /\ \A j \in dst : RepOf(i, j, t).times < HandoverScrapes
       THEN "both<3"
     ELSE IF RepOf(i, k, t).times < HandoverScrapes THEN "source<3"
     ELSE "destination<3"
\* the other half of "the same cycle marks it in-transfer on the source": a copy placed on k of a target that in-sync
\* shards hold in normal state (and none in transfer) is a move - one of those holders is told so in this cycle
C05_NormalHolders(i, k, t) == {j \in Sh(i) \ {k} : InSync(i, j) /\ t \in Reported(i, j) /\ RepOf(i, j, t).state = ""}
C05_Unmarked(i, o) ==
  {<<k, t>> \in Sh(i) \X ActiveSet(i) :
      /\ t \in New(i, o, k) /\ InSync(i, k)
      /\ C05_NormalHolders(i, k, t) # {} /\ ~C05_TwoSources(i, o, k, t)
      /\ ~\E j \in C05_NormalHolders(i, k, t) : Sent(o, j) /\ t \in Posted(o, j) /\ PostOf(o, j, t).state = "in_transfer"}
C05(i, o) ==
  {[f |-> "removed-before-handover", k |-> p[1], t |-> p[2], why |-> C05_Why(i, p[1], p[2])] : p \in C05_Early(i, o)}
  \cup {[f |-> "marked-without-destination", k |-> p[1], t |-> p[2]] : p \in C05_Unpaired(i, o)}
  \cup {[f |-> "copied-without-marking-the-source", k |-> p[1], t |-> p[2]] : p \in C05_Unmarked(i, o)}
\* non-vacuity: the cycle contains a move in progress or started
C05_NonTrivial(i, o) ==
  \/ \E k \in Sh(i) : InSync(i, k) /\ \E r \in RepRecs(i, k) : r.state = "in_transfer" /\ r.t \in ActiveSet(i)
  \/ C05_Marked(i, o) # {}

-----------------------------------------------------------------------------
(* C07 *)
Needed(i, o, k) ==
  \/ ~InSync(i, k)
  \/ Reported(i, k) # {}
  \/ New(i, o, k) # {}
  \/ i.shards[k].idle # "expired"
LastNeeded(i, o) ==
  LET S == {k \in Sh(i) : Needed(i, o, k)} IN
  IF S = {} THEN 0 ELSE CHOOSE x \in S : \A y \in S : y <= x
\* clear evidence that more room was needed: an eligible unscraped target stayed unplaced
Unplaced(i, o) ==
  {t \in UnscrapedHealthy(i) : /\ ~Oversized(i, t)
                               /\ \A k \in Sh(i) : t \notin New(i, o, k) /\ t \notin Reported(i, k)}
C07(i, o) ==
  LET idx == DOMAIN o.scales IN
  {[f |-> "out-of-bounds", n |-> o.scales[x]] :
      x \in {x \in idx : i.opts.minShard <= i.opts.maxShard
                         /\ (o.scales[x] < i.opts.minShard \/ o.scales[x] > i.opts.maxShard)}}
  \cup {[f |-> "removes-needed-shard", n |-> o.scales[x], last |-> LastNeeded(i, o), idx |-> x, of |-> Len(o.scales)] :
      x \in {x \in idx : NSh(i) <= i.opts.maxShard /\ o.scales[x] < LastNeeded(i, o)}}
  \cup {[f |-> "scale-down-disabled", n |-> o.scales[x]] :
      x \in {x \in idx : NSh(i) <= i.opts.maxShard /\ i.opts.maxIdle = 0 /\ o.scales[x] < NSh(i)}}
  \cup {[f |-> "scale-down-while-space-needed", n |-> o.scales[x]] :
      x \in {x \in idx : NSh(i) <= i.opts.maxShard /\ Unplaced(i, o) # {}
                         /\ (\A k \in Sh(i) : InSync(i, k)) /\ o.scales[x] < NSh(i)}}

-----------------------------------------------------------------------------
(* C08 *)
HashDiffers(i, k) == i.shards[k].mode \in {"pushfail", "rt2fail", "stale", "pushok"}
LOCAL IndexOf(s, x) == IF \E n \in DOMAIN s : s[n] = x
                        THEN CHOOSE n \in DOMAIN s : s[n] = x /\ \A m \in DOMAIN s : s[m] = x => n <= m
                        ELSE 0
C08(i, o) ==
  {[f |-> "touched-while-not-in-sync", k |-> k, reqs |-> o.reqs[k]] :
      k \in {k \in Sh(i) : ~InSync(i, k) /\ (ReqSet(o, k) \cap {"targets", "extra"} # {} \/ Sent(o, k))}}
  \cup {[f |-> "request-to-unready", k |-> k] :
      k \in {k \in Sh(i) : i.shards[k].mode = "notready" /\ Len(o.reqs[k]) # 0}}
  \cup {[f |-> "config-not-pushed-first", k |-> k, reqs |-> o.reqs[k]] :
      k \in {k \in Sh(i) : HashDiffers(i, k) /\ (Len(o.reqs[k]) < 3 \/ o.reqs[k][3] # "cfg"
                                               \/ (IndexOf(o.reqs[k], "targets") # 0 /\ IndexOf(o.reqs[k], "targets") < 3))}}
  \cup {[f |-> "config-body-wrong", k |-> k] :
      k \in {k \in Sh(i) : "cfgBodyOK" \in DOMAIN o /\ ~o.cfgBodyOK[k]}}
  \cup {[f |-> "moved-to-shard-not-in-sync", k |-> p[1], t |-> p[2]] :
      p \in {p \in C05_Unpaired(i, o) : \E k \in Sh(i) : ~InSync(i, k)}}
  \cup (IF "extraBodyOK" \in DOMAIN o /\ ~o.extraBodyOK THEN {[f |-> "extra-config-body-wrong"]} ELSE {})
  \cup {[f |-> "assigned-twice", t |-> t] :
      t \in {t \in ActiveSet(i) :
               /\ \E k \in Sh(i) : StatusOK(i, k) /\ ~InSync(i, k) /\ t \in Reported(i, k)
               /\ ~\E k \in Sh(i) : InSync(i, k) /\ t \in Reported(i, k)
               /\ \E j \in Sh(i) : t \in New(i, o, j)}}
\* non-vacuity
C08_NonTrivial(i, o) == \E k \in Sh(i) : ~InSync(i, k)

-----------------------------------------------------------------------------
(* C03, cycle part: whenever all shards are in sync and an eligible unscraped target could not be   *)
(* placed, the requested shard count exceeds the current one (up to the max-shard clamp)            *)
C03_Unplaced(i, o) ==
  IF (\A k \in Sh(i) : InSync(i, k)) /\ Unplaced(i, o) # {} /\ Len(o.scales) > 0
       /\ o.scales[Len(o.scales)] <= NSh(i) /\ NSh(i) < i.opts.maxShard
    THEN {[f |-> "no-scale-up-although-eligible-target-unplaced", n |-> o.scales[Len(o.scales)]]}
    ELSE {}

(* C03, the cycle's part in "reaches within a bounded number of cycles": whether an overloaded shard is relieved in a   *)
(* cycle may not depend on the order its targets are looked at.  Stated for the plainest world only, where nothing else *)
(* of the cycle can interfere (so that the clause never asks for more than the statement): every shard in sync and      *)
(* answering, every reported target discovered, held once and in normal state, relief enabled, and exactly one shard s   *)
(* over a limit.  If the settled targets of s (healthy, normal, scraped HandoverScrapes times: the ones whose sizes are  *)
(* known) that do not alone exceed a limit together are more than a whole shard may hold, and one of them fits on        *)
(* another shard as reported, then the cycle moves something away from s.                                               *)
PlainWorld(i) ==
  /\ i.failScale = 0              \* (a failing scale request can end the cycle before anything is planned)
  /\ \A k \in Sh(i) : i.shards[k].mode = "ok" /\ ~i.shards[k].postFail
  /\ ~("noAlleviate" \in DOMAIN i.opts /\ i.opts.noAlleviate)
  /\ \A k \in Sh(i) : \A r \in RepRecs(i, k) :
        /\ r.t \in ActiveSet(i) /\ r.state = ""
        /\ ~\E j \in Sh(i) \ {k} : r.t \in Reported(i, j)
TooBigP(i, r) == r.total > i.opts.maxProc
TooBigH(i, r) == r.series > i.opts.maxHead \/ r.total > i.opts.maxProc
MovedAway(i, o, s) == \E t \in Reported(i, s) : \E j \in Sh(i) \ {s} : t \in New(i, o, j)
FitsOn(i, j, r) == /\ (i.opts.maxHead = 0 \/ i.shards[j].head + r.series < i.opts.maxHead)
                   /\ i.shards[j].proc + r.total < i.opts.maxProc
Steady(r) == r.state = "" /\ r.health = "up" /\ r.times >= HandoverScrapes
C03_ProcNotRelieved(i, o) ==
  {s \in Sh(i) :
     /\ PlainWorld(i)
     /\ i.shards[s].proc >= i.opts.maxProc
     /\ \A k \in Sh(i) \ {s} : i.shards[k].proc < i.opts.maxProc
     /\ SumRecs({r \in RepRecs(i, s) : ~TooBigP(i, r) /\ Steady(r)}, "total") > i.opts.maxProc
     /\ \E r \in RepRecs(i, s) : /\ ~TooBigP(i, r) /\ r.total # 0 /\ Steady(r)
                                  /\ \E j \in Sh(i) \ {s} : FitsOn(i, j, r)
     /\ ~MovedAway(i, o, s)}
C03_HeadNotRelieved(i, o) ==
  {s \in Sh(i) :
     /\ PlainWorld(i) /\ i.opts.maxHead # 0
     /\ \A k \in Sh(i) : i.shards[k].proc < i.opts.maxProc
     /\ i.shards[s].head * 10 >= i.opts.maxHead * 11
     /\ \A k \in Sh(i) \ {s} : i.shards[k].head * 10 < i.opts.maxHead * 11
     /\ SumRecs({r \in RepRecs(i, s) : ~TooBigH(i, r) /\ Steady(r)}, "series") > i.opts.maxHead
     /\ \E r \in RepRecs(i, s) : /\ ~TooBigH(i, r) /\ Steady(r)
                                  /\ \E j \in Sh(i) \ {s} : FitsOn(i, j, r)
     /\ ~MovedAway(i, o, s)}
C03(i, o) ==
  C03_Unplaced(i, o)
  \cup {[f |-> "overloaded-shard-not-relieved", k |-> s, limit |-> "process"] : s \in C03_ProcNotRelieved(i, o)}
  \cup {[f |-> "overloaded-shard-not-relieved", k |-> s, limit |-> "head"] : s \in C03_HeadNotRelieved(i, o)}

-----------------------------------------------------------------------------
(* C20, last sentence: the counts of the successful probe are the estimate the target is first assigned with.  A target *)
(* no reachable shard reports and for which the explorer has a healthy result is, when placed, sent with that result.     *)
C20(i, o) ==
  {[f |-> "first-assignment-without-the-probes-counts", k |-> p[1], t |-> p[2],
    sent |-> [series |-> PostOf(o, p[1], p[2]).series, total |-> PostOf(o, p[1], p[2]).total]] :
     p \in {p \in Sh(i) \X ActiveSet(i) :
              /\ p[2] \in New(i, o, p[1])
              /\ ~\E j \in Sh(i) : StatusOK(i, j) /\ p[2] \in Reported(i, j)
              /\ \E e \in ExplRecs(i) : e.t = p[2] /\ e.health = "up"
              /\ LET e == CHOOSE e \in ExplRecs(i) : e.t = p[2]
                     x == PostOf(o, p[1], p[2])
                 IN x.series # e.series \/ x.total # e.total}}

(* C03 / C06, "further cycles then change nothing", as a property of the set of outcomes one input can have: in a      *)
(* fault-free cycle, whether the cycle changes anything (a shard's set of targets or their states, or the scale) does    *)
(* not depend on the order in which maps are visited or on random picks - else a cycle that changed nothing is no         *)
(* fixpoint.  (StableKvass.tla states the same on the closed loop.)                                                       *)
Acts(i, o) ==
  \/ \E k \in Sh(i) : /\ Sent(o, k) /\ o.posts[k].ok
                        /\ {<<x.t, x.state>> : x \in PostRecs(o, k)} # {<<r.t, r.state>> : r \in RepRecs(i, k)}
  \/ Len(o.scales) > 0 /\ o.scales[Len(o.scales)] # NSh(i)
FaultFree(i) == i.failScale = 0 /\ \A k \in Sh(i) : i.shards[k].mode = "ok" /\ ~i.shards[k].postFail
OrderDependent(i, outs) == FaultFree(i) /\ Cardinality({Acts(i, o) : o \in outs}) = 2

All(i, o) == [C01 |-> C01(i, o), C03 |-> C03(i, o), C04 |-> C04(i, o), C05 |-> C05(i, o), C07 |-> C07(i, o), C08 |-> C08(i, o), C20 |-> C20(i, o)]
=============================================================================
