------------------------------- MODULE Sidecar -------------------------------
(***************************************************************************)
(* The bookkeeping of one sidecar (pkg/sidecar/targets.go TargetsManager,   *)
(* pkg/sidecar/proxy.go completion of a scrape, pkg/target/status.go,        *)
(* pkg/sidecar/service.go runtimeInfo), as functions from state to state so  *)
(* that the same operators are used by the model (MCSidecar: TLC explores    *)
(* every sequence of operations) and on pre/post states recorded from the    *)
(* real sidecar (SidecarEval).                                               *)
(*                                                                         *)
(* State record w:                                                          *)
(*   assign  : sequence of [job, h, state, series, total]  (request order)  *)
(*   status  : function h -> [state, health, err, times, series, total, win] *)
(*   idleAt  : clock value since when the assignment is empty, -1 if not     *)
(*   clock   : integer time                                                  *)
(*   store   : [has, assign, idleAt] last persisted (has = FALSE: no file)    *)
(*   promHead: head series Prometheus itself reports                         *)
(*   gen     : the <<job, h>> pairs of the static entries in the configuration   *)
(*             file the injector generated for Prometheus (jobs the sidecar's    *)
(*             configuration knows: KnownJobs)                                   *)
(*   loaded  : what the shard's Prometheus runs with: gen as it was at the last      *)
(*             reload that succeeded                                                 *)
(***************************************************************************)
EXTENDS Integers, Sequences, FiniteSets, SequencesExt

Rng(s) == {s[k] : k \in DOMAIN s}
Hashes(a) == {x.h : x \in Rng(a)}
\* last occurrence wins, as in updateStatus' loop (requests never repeat a hash; see DESIGN)
ReqOf(a, h) == LET ks == {k \in DOMAIN a : a[k].h = h}
               IN a[CHOOSE k \in ks : \A m \in ks : m <= k]

NewStatus(x) == [state |-> x.state, health |-> "unknown", err |-> FALSE, times |-> 0,
                 series |-> x.series, total |-> x.total, win |-> <<>>]

KnownJobs == {"j1", "j2"}
GenOf(a) == {<<x.job, x.h>> : x \in {x \in Rng(a) : x.job \in KnownJobs}}
Init0 == [assign |-> <<>>, status |-> [h \in {} |-> 0], idleAt |-> -1, clock |-> 0,
          store |-> [has |-> FALSE, assign |-> <<>>, idleAt |-> -1], promHead |-> 0, gen |-> {}, loaded |-> {}]

IdleRule(status, idleAt, clock) ==
  IF DOMAIN status = {} THEN (IF idleAt = -1 THEN clock ELSE idleAt) ELSE -1

(* UpdateTargets: status rebuilt, entries of kept hashes reused, counter reset exactly on *)
(* normal -> in_transfer, idle rule, save.                                                *)
RebuildStatus(old, a) ==
  [h \in Hashes(a) |->
     LET x == ReqOf(a, h) IN
     IF h \in DOMAIN old
       THEN [old[h] EXCEPT !.times = IF old[h].state = "" /\ x.state = "in_transfer" THEN 0 ELSE @,
                           !.state = x.state]
       ELSE NewStatus(x)]

Update(w, a) ==
  LET st == RebuildStatus(w.status, a)
      ia == IdleRule(st, w.idleAt, w.clock)
  IN [w EXCEPT !.assign = a, !.status = st, !.idleAt = ia, !.store = [has |-> TRUE, assign |-> a, idleAt |-> ia], !.gen = GenOf(a), !.loaded = GenOf(a)]

(* An update whose callbacks fail (the failing callback modelled here is the last one, the reload   *)
(* of Prometheus: the configuration file has been written): the request is answered with an error,  *)
(* nothing is persisted and Prometheus goes on with what it had loaded.                             *)
(* RejectKeepsOld (the repaired tree): the request is not in force either - assignment, statuses,     *)
(* the generated file                                                                                  *)
(* (state, scrape counter) and idle instant are what they were, so that the shard's report shows the   *)
(* coordinator that it does not have what was asked for.  FALSE (the pinned tree): the bookkeeping in   *)
(* memory has taken the request over; that is what the shard reports from then on (the coordinator,      *)
(* seeing its plan in force, never asks again) and what a restart forgets.                               *)
RejectKeepsOld == TRUE
UpdateRejected(w, a) ==
  IF RejectKeepsOld THEN [w EXCEPT !.loaded = w.gen]       \* (the callbacks run once more with what is in force: the file is that of
                                                           \* the assignment in force, and this time Prometheus takes the reload)
  ELSE [Update(w, a) EXCEPT !.store = w.store, !.loaded = w.loaded]

(* An update whose FIRST callback fails (the generated configuration can not be written): nothing is in force, nothing  *)
(* is written, Prometheus is not asked - the state is what it was.                                                       *)
UpdateRejectedW(w, a) == IF RejectKeepsOld THEN w ELSE [Update(w, a) EXCEPT !.store = w.store, !.loaded = w.loaded, !.gen = w.gen]

(* Completion of one proxied scrape of hash h (A.11).  ok: the real scrape succeeded;     *)
(* kept / total: samples after / before metric relabeling.  A scrape of an unassigned      *)
(* hash changes nothing.                                                                  *)
Mean(win) == LET RECURSIVE Sum(_)
                 Sum(s) == IF s = <<>> THEN 0 ELSE Head(s) + Sum(Tail(s))
             IN Sum(win) \div Len(win)
Push(win, v) == IF Len(win) < 3 THEN Append(win, v) ELSE Append(Tail(win), v)

Scrape(w, h, ok, kept, total) ==
  IF h \notin DOMAIN w.status THEN w
  ELSE LET e == w.status[h]
           e2 == IF ok
                   THEN LET nw == Push(e.win, kept)
                        IN [e EXCEPT !.times = @ + 1, !.health = "up", !.err = FALSE,
                                     !.win = nw, !.series = Mean(nw), !.total = total]
                   ELSE [e EXCEPT !.times = @ + 1, !.health = "down", !.err = TRUE]
       IN [w EXCEPT !.status[h] = e2]

(* Restart: a new process loads the store (A.10): assignment and idle-since come back,     *)
(* statuses are rebuilt from the stored estimates, statistics and window are lost.          *)
Restart(w) ==
  LET a  == w.store.assign
      ia0 == w.store.idleAt
      st == [h \in Hashes(a) |-> NewStatus(ReqOf(a, h))]
      ia == IdleRule(st, ia0, w.clock)
  IN [w EXCEPT !.assign = a, !.status = st, !.idleAt = ia, !.store = [has |-> TRUE, assign |-> a, idleAt |-> ia], !.gen = GenOf(a), !.loaded = GenOf(a)]

(* A restart at which the reload of Prometheus fails (Prometheus is not up yet - the usual order of a pod's start): *)
(* the stored assignment is resumed all the same and nothing is written again.  Prometheus reads the generated file    *)
(* when it comes up, at the latest with the reload of the configuration the coordinator pushes to a restarted sidecar   *)
(* (which is where this operation ends: loaded = gen).                                                                  *)
RestartReloadFails(w) == [Restart(w) EXCEPT !.store = w.store]

(* A reload of the configuration that leaves the jobs as they are (other metric relabeling rules): the file is generated  *)
(* again and Prometheus takes it - also what an earlier refused update had left unloaded.                                  *)
Reconfig(w)   == [w EXCEPT !.loaded = w.gen]
Tick(w)       == [w EXCEPT !.clock = @ + 1]
SetHead(w, n) == [w EXCEPT !.promHead = n]

(* what GET /runtimeinfo/ answers *)
RECURSIVE SumF(_, _, _)
SumF(st, S, f) == IF S = {} THEN 0
                  ELSE LET h == CHOOSE x \in S : TRUE
                       IN (IF f = "series" THEN st[h].series ELSE st[h].total) + SumF(st, S \ {h}, f)
RuntimeInfo(w) ==
  LET ss == SumF(w.status, DOMAIN w.status, "series")
  IN [head |-> IF w.promHead < ss THEN ss ELSE w.promHead,
      proc |-> SumF(w.status, DOMAIN w.status, "total"),
      idleAt |-> w.idleAt]

(* The observable projection (what the HTTP API and TargetsInfo expose), in the shape the  *)
(* harness records it.                                                                    *)
Proj(w) ==
  [assign |-> w.assign,
   status |-> LET ord == SetToSortSeq(DOMAIN w.status, <)
              IN [k \in DOMAIN ord |->
                   [h |-> ord[k], state |-> w.status[ord[k]].state, health |-> w.status[ord[k]].health,
                    err |-> w.status[ord[k]].err, times |-> w.status[ord[k]].times,
                    series |-> w.status[ord[k]].series, total |-> w.status[ord[k]].total]],
   rt |-> RuntimeInfo(w), gen |-> w.gen, loaded |-> w.loaded]
=============================================================================
