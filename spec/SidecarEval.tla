------------------------------ MODULE SidecarEval ------------------------------
(* Trace validation of the real sidecar against spec/Sidecar.tla.  obs.ndjson    *)
(* holds, per replayed behaviour, the operations with their arguments and the     *)
(* projected REAL state after each operation.  Every trace is folded through the  *)
(* specification's own operators (Update, Scrape, Restart, Tick, SetHead) from    *)
(* the specification's initial state; after every step the projection of the      *)
(* specification state must equal the recorded real state.  The first deviating   *)
(* step of a trace is reported with the fields that differ (viol.ndjson), which   *)
(* is what assigns it to C10 (assignment tracking, state, counters, health, new   *)
(* estimates, idle time) or C14 (series accounting).                              *)
EXTENDS Sidecar, TLC, Json, IOUtils

Obs == ndJsonDeserialize("obs.ndjson")

Apply(w, s) ==
  CASE s.a = "Update"  -> IF s.ack THEN Update(w, s.req) ELSE w
    [] s.a = "UpdateRejected" -> IF s.ack THEN Update(w, s.req) ELSE UpdateRejected(w, s.req)
    [] s.a = "UpdateRejectedW" -> IF s.ack THEN Update(w, s.req) ELSE UpdateRejectedW(w, s.req)
    [] s.a = "Scrape"  -> Scrape(w, s.h, s.ok, s.kept, s.total)
    [] s.a = "Restart" -> Restart(w)
    [] s.a = "RestartReloadFails" -> RestartReloadFails(w)
    [] s.a = "Tick"    -> Tick(w)
    [] s.a = "Reconfig" -> Reconfig(w)          \* (a reload that changes only the rules samples are counted by)
    [] s.a = "SetHead" -> SetHead(w, s.n)

StatusOf(p, h) == LET S == {x \in Rng(p.status) : x.h = h} IN CHOOSE x \in S : TRUE
Hs(p) == {x.h : x \in Rng(p.status)}

\* names of the fields in which the real projection r deviates from the expected projection e
Diff(e, r) ==
  (IF Rng(e.assign) # Rng(r.assign) THEN {"assign"} ELSE {})
  \cup (IF Hs(e) # Hs(r) \/ Len(r.status) # Cardinality(Hs(r)) THEN {"status-domain"} ELSE {})
  \cup UNION {{f \in {"state", "health", "err", "times", "series", "total"} :
                 StatusOf(e, h)[f] # StatusOf(r, h)[f]} : h \in Hs(e) \cap Hs(r)}
  \cup (IF e.rt.head # r.rt.head THEN {"rt.head"} ELSE {})
  \cup (IF e.rt.proc # r.rt.proc THEN {"rt.proc"} ELSE {})
  \cup (IF e.rt.idleAt # r.rt.idleAt THEN {"rt.idleAt"} ELSE {})
  \cup (IF e.gen # {<<x.job, x.h>> : x \in Rng(r.gen)} THEN {"generated-config"} ELSE {})
  \cup (IF e.loaded # {<<x.job, x.h>> : x \in Rng(r.loaded)} THEN {"loaded-config"} ELSE {})
  \* C11 on the real state alone: the generated file lists exactly the targets that are assigned (jobs the configuration knows)
  \cup (IF {<<x.job, x.h>> : x \in Rng(r.gen)} # GenOf(r.assign) THEN {"generated-config-is-not-the-assignment"} ELSE {})

\* /samples/ after a successful scrape of an assigned target: the per-metric counts add up to
\* the totals of the payload (C14)
SamplesBad(w, s) ==
  \/ /\ s.a = "Scrape" /\ s.ok /\ s.h \in DOMAIN w.status
     /\ (~s.hasStat \/ s.sumScraped # s.kept \/ s.sumTotal # s.total
           \/ s.statScraped # s.kept \/ s.statTotal # s.total \/ ~s.jobOK)
  \* ... and the per-metric counts recorded for the targets scraped EARLIER are still what their pages said
  \/ (s.a = "Scrape" /\ ~s.metricsOK)

RECURSIVE Walk(_, _, _, _)
Walk(id, w, steps, k) ==
  IF k > Len(steps) THEN {}
  ELSE LET s  == steps[k]
           w2 == Apply(w, s)
           d  == Diff(Proj(w2), s.post) \cup (IF SamplesBad(w, s) THEN {"samples"} ELSE {})
       IN IF d # {}
            THEN {[id |-> id, k |-> k, a |-> s.a, fields |-> d,
                   newentry |-> (s.a \in {"Update", "UpdateRejected", "UpdateRejectedW", "Restart", "RestartReloadFails"}),
                   expected |-> Proj(w2), observed |-> s.post]}
            ELSE Walk(id, w2, steps, k + 1)

Viol == UNION {Walk(Obs[i].id, Restart(Init0), Obs[i].steps, 1) : i \in DOMAIN Obs}
Steps == LET RECURSIVE Cnt(_)
             Cnt(i) == IF i = 0 THEN 0 ELSE Len(Obs[i].steps) + Cnt(i - 1)
         IN Cnt(Len(Obs))

ASSUME ndJsonSerialize("viol.ndjson", SetToSeq(Viol))
ASSUME ndJsonSerialize("evalstats.ndjson", <<[traces |-> Len(Obs), steps |-> Steps]>>)
=============================================================================
