------------------------------ MODULE SimKvass ------------------------------
(* Schedules for the real closed loop drawn from the specification itself: TLC        *)
(* simulates Kvass.tla (environment steps, faults, cycles with all their internal       *)
(* steps) and records the externally driven steps in hist, in the vocabulary of the       *)
(* harness (`kvh loop').  RandomElement weights the classes of steps - a uniform choice     *)
(* among successor states would spend the fault budget on the many ForeignUpdate             *)
(* instances in the first steps of every behaviour.                                          *)
EXTENDS Kvass, TLC, Json, IOUtils, CSV, Randomization

CONSTANTS OutFile, Depth
VARIABLES hist, size0, dice      \* dice: the class of the next externally driven step (drawn in the previous step)
svars == <<allvars, hist, size0, dice>>

E0 == [a |-> "", i |-> 0, t |-> 0, series |-> 0, total |-> 0, on |-> FALSE, modes |-> <<>>, postFail |-> <<>>, rej |-> <<>>, failScale |-> 0, place |-> <<>>]
Log(e) == hist' = Append(hist, e) /\ UNCHANGED size0 /\ dice' = RandomElement(1..20)

SInit == KInit /\ hist = <<>> /\ size0 = size /\ dice = 3

FaultStep ==
  \/ \E i \in 1..MaxN : RestartSidecar(i) /\ Log([E0 EXCEPT !.a = "restart", !.i = i])
  \/ \E i \in 1..MaxN : RecreatePod(i) /\ Log([E0 EXCEPT !.a = "recreate", !.i = i])
  \/ ShrinkByOne /\ Log([E0 EXCEPT !.a = "shrink"])
  \/ \E i \in 1..MaxN : \E P \in RandomSubset(1, Placements) :     \* (a bound variable is evaluated once, a LET definition at every use)
        ForeignUpdate(i, P) /\ Log([E0 EXCEPT !.a = "place", !.i = i, !.place = SetToSeq(P)])
  \/ \E f \in OneFault : StartCycle(f) /\ Log([E0 EXCEPT !.a = "cycle", !.modes = f.modes, !.postFail = f.postFail, !.rej = f.rej, !.failScale = f.failScale])
EnvStepS ==
  \/ \E t \in Targets : EnvFrame /\ AddT(t) /\ Log([E0 EXCEPT !.a = "add", !.t = t])
  \/ \E t \in Targets : EnvFrame /\ RemoveT(t) /\ Log([E0 EXCEPT !.a = "remove", !.t = t])
  \/ \E t \in Targets : EnvFrame /\ SetAlive(t, ~alive[t]) /\ Log([E0 EXCEPT !.a = "alive", !.t = t, !.on = ~alive[t]])
  \/ \E t \in Targets : \E s \in RandomSubset(1, Sizes) :
        EnvFrame /\ SetSize(t, s) /\ Log([E0 EXCEPT !.a = "size", !.t = t, !.series = s.series, !.total = s.total])
  \/ Tick /\ Log([E0 EXCEPT !.a = "tick"])
WorkStep ==
  \/ StartCycle(NoFaults) /\ Log([E0 EXCEPT !.a = "cycle"])
  \/ \E i \in 1..MaxN : ScrapeRound(i) /\ Log([E0 EXCEPT !.a = "scrape", !.i = i])
  \/ \E t \in Targets : Probe(t) /\ Log([E0 EXCEPT !.a = "probe", !.t = t])
SNext ==
  \/ (CycleStep \/ EndCycle) /\ UNCHANGED <<hist, size0, dice>>
  \/ pc = "idle" /\ LET r == dice IN
        \/ r = 1 /\ faults < FaultBudget /\ FaultStep
        \/ r \in 2..5 /\ EnvStepS
        \/ r > 5 /\ WorkStep
        \* nothing of the drawn class is possible: anything that is
        \/ r = 1 /\ faults >= FaultBudget /\ WorkStep
        \/ r \in 2..5 /\ envs >= EnvBudget /\ WorkStep
SSpec == SInit /\ [][SNext]_svars

Export == (TLCGet("level") = Depth) =>
  CSVWrite("%1$s", <<ToJson([sizes |-> [t \in Targets |-> size0[t]], steps |-> hist])>>, OutFile)
=============================================================================
