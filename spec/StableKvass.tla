----------------------------- MODULE StableKvass -----------------------------
(* "Further cycles then change nothing" (C03, C06) as a property of single cycles: a fault-free cycle that   *)
(* left every sidecar and the scale as they were is a fixpoint - the next fault-free cycle from the same      *)
(* world leaves them as they are too.  The outcome of a cycle is a function of the world up to the order in    *)
(* which maps are visited and random picks; this says that WHETHER a cycle acts does not depend on those.       *)
(* still: the last completed cycle was fault-free and changed nothing, and nothing else has changed the world    *)
(* since (scrape rounds that leave every status as it is are stuttering steps).                                  *)
EXTENDS Kvass

VARIABLE still
stvars == <<allvars, still>>

StInit == KInit /\ still = FALSE
StNext ==
  /\ KNext
  /\ still' = IF pc = "done" THEN (cyc = NoFaults /\ sc' = sc /\ nsh' = nsh)
              ELSE IF pc = "idle" /\ pc' = "idle" THEN (still /\ UNCHANGED <<nsh, sc, disc, size, alive, est, clock>>)
              ELSE still
StSpec == StInit /\ [][StNext]_stvars

\* compact view of a state for counterexamples (cfg: ALIAS Brief)
Brief == [pc |-> pc, still |-> still, nsh |-> nsh, clock |-> clock, disc |-> disc, size |-> size, alive |-> alive,
          shards |-> [i \in 1..nsh |-> [h \in DOMAIN sc[i].status |-> <<sc[i].status[h].state, sc[i].status[h].health, sc[i].status[h].times,
                                                                      sc[i].status[h].series, sc[i].status[h].total>>]],
          idle |-> [i \in 1..nsh |-> sc[i].idleAt], scales |-> scales, cyc |-> cyc]

Fixpoint == [][(still /\ pc = "done" /\ cyc = NoFaults) => (sc' = sc /\ nsh' = nsh)]_stvars
=============================================================================
