------------------------------ MODULE StaticEval ------------------------------
EXTENDS StaticShards, TLC, Json, IOUtils, SequencesExt
Obs == ndJsonDeserialize("obs.ndjson")
Bad(o) == (IF o.before # Replicas(o.file) THEN {"listing"} ELSE {})
          \cup (IF o.after # AfterScale(o.file, o.reqs) THEN {"scale-request-changed-something"} ELSE {})
          \cup (IF o.scaleErrors # 0 THEN {"scale-request-rejected"} ELSE {})
Viol == UNION {{[idx |-> k, which |-> w] : w \in Bad(Obs[k])} : k \in DOMAIN Obs}
ASSUME ndJsonSerialize("viol.ndjson", SetToSeq(Viol))
=============================================================================
