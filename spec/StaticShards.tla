----------------------------- MODULE StaticShards -----------------------------
(***************************************************************************)
(* The static shard manager (pkg/shard/static): replicas and their shards     *)
(* are read from a YAML file on every call; a shard is always reported ready;   *)
(* scale requests are accepted and change nothing (Kvass.tla, option static).    *)
(* A file is a sequence of replicas, a replica a sequence of [id, url].          *)
(***************************************************************************)
EXTENDS Integers, Sequences

Replicas(file) == [r \in DOMAIN file |-> [k \in DOMAIN file[r] |-> [id |-> file[r][k].id, url |-> file[r][k].url, ready |-> TRUE]]]
\* after any sequence of scale requests the file - and therefore the answer - is what it was
AfterScale(file, reqs) == Replicas(file)
=============================================================================
