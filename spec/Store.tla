-------------------------------- MODULE Store --------------------------------
(***************************************************************************)
(* Persistence of the sidecar's assignment (pkg/sidecar/targets.go            *)
(* saveTargets / Load, cmd/kvass/sidecar.go start-up) as a protocol of file     *)
(* system steps with crash points.                                             *)
(*                                                                           *)
(* One run: the store holds the acknowledged assignment A (complete file, or no *)
(* file at all when A = "none": first start).  The sidecar persists assignment  *)
(* B; the write is cut after Cut blocks of the NBlocks the new file needs       *)
(* (process killed there, or the write failing there: disk full / file size     *)
(* limit) or completes (Cut = NBlocks).  Then the sidecar is started, and        *)
(* started again.  With c.retry (only when the write FAILED and the process       *)
(* lives on) the coordinator sends the same assignment again - its view of the     *)
(* shard still differs - and this second attempt meets no fault.                   *)
(*                                                                           *)
(* AtomicStore = FALSE: ioutil.WriteFile on the store file itself (truncate,    *)
(* write, close).  TRUE: write a temporary file, sync, rename over the store.   *)
(* LoadFailRewrites = TRUE: a failed Load still runs the deferred                *)
(* UpdateTargets(current), which saves the (empty) in-memory assignment.         *)
(***************************************************************************)
EXTENDS Integers, Sequences, FiniteSets

CONSTANTS AtomicStore, LoadFailRewrites, Cases

VARIABLES c,        \* the case: [a, b, nblocks, cut, retry]
          attempt,  \* 1, or 2 for the repeated update
          pc,
          primary,  \* [has, of, blocks, n]: store file holds `blocks' of the n blocks of assignment `of'
          tmp,      \* same for the temporary file
          acked,    \* the update of b was acknowledged
          starts    \* sequence of start outcomes: [ok, resumed]

vars == <<c, attempt, pc, primary, tmp, acked, starts>>
CutAt == IF attempt = 1 THEN c.cut ELSE c.nblocks

NoFile == [has |-> FALSE, of |-> "none", blocks |-> 0, n |-> 0]
Complete(f) == f.has /\ f.blocks = f.n /\ f.n > 0

Init ==
  /\ c \in Cases
  /\ pc = "begin" /\ attempt = 1
  /\ primary = IF c.a = "none" THEN NoFile ELSE [has |-> TRUE, of |-> c.a, blocks |-> 1, n |-> 1]
  /\ tmp = NoFile /\ acked = FALSE /\ starts = <<>>

(* --- persisting b --- *)
OpenTarget ==
  /\ pc = "begin"
  /\ IF AtomicStore
       THEN tmp' = [has |-> TRUE, of |-> c.b, blocks |-> 0, n |-> c.nblocks] /\ UNCHANGED primary
       ELSE primary' = [has |-> TRUE, of |-> c.b, blocks |-> 0, n |-> c.nblocks] /\ UNCHANGED tmp   \* O_TRUNC
  /\ pc' = "write"
  /\ UNCHANGED <<c, attempt, acked, starts>>

WriteBlock ==
  /\ pc = "write"
  /\ IF AtomicStore
       THEN IF tmp.blocks < CutAt
              THEN tmp' = [tmp EXCEPT !.blocks = @ + 1] /\ UNCHANGED <<primary, pc>>
              ELSE pc' = (IF CutAt = c.nblocks THEN "finish" ELSE "cut") /\ UNCHANGED <<primary, tmp>>
       ELSE IF primary.blocks < CutAt
              THEN primary' = [primary EXCEPT !.blocks = @ + 1] /\ UNCHANGED <<tmp, pc>>
              ELSE pc' = (IF CutAt = c.nblocks THEN "finish" ELSE "cut") /\ UNCHANGED <<primary, tmp>>
  /\ UNCHANGED <<c, attempt, acked, starts>>

Finish ==   \* close (and sync + rename): the update is acknowledged
  /\ pc = "finish"
  /\ IF AtomicStore
       THEN primary' = tmp /\ tmp' = NoFile
       ELSE UNCHANGED <<primary, tmp>>
  /\ acked' = TRUE /\ pc' = "stopped"
  /\ UNCHANGED <<c, attempt, starts>>

Cut ==      \* killed, or the write failed and the process is stopped later: same disk state
  /\ pc = "cut"
  /\ IF c.retry /\ attempt = 1
       THEN \* the failed attempt removes its temporary file; the update arrives again
            /\ pc' = "begin" /\ attempt' = 2 /\ tmp' = NoFile
       ELSE pc' = "stopped" /\ UNCHANGED <<attempt, tmp>>
  /\ UNCHANGED <<c, primary, acked, starts>>

(* --- a start: Load --- *)
Start ==
  /\ pc = "stopped" /\ Len(starts) < 2
  /\ IF ~primary.has
       THEN \* no store: start with the empty assignment, which is saved
            /\ starts' = Append(starts, [ok |-> TRUE, resumed |-> "none"])
            /\ primary' = [has |-> TRUE, of |-> "empty", blocks |-> 1, n |-> 1]
     ELSE IF Complete(primary)
       THEN /\ starts' = Append(starts, [ok |-> TRUE, resumed |-> primary.of])
            /\ UNCHANGED primary
     ELSE \* truncated / partial file: unmarshal error, the sidecar panics at start
          /\ starts' = Append(starts, [ok |-> FALSE, resumed |-> "none"])
          /\ IF LoadFailRewrites
               THEN primary' = [has |-> TRUE, of |-> "empty", blocks |-> 1, n |-> 1]
               ELSE UNCHANGED primary
  /\ UNCHANGED <<c, attempt, pc, tmp, acked>>

Done == pc = "stopped" /\ Len(starts) = 2 /\ UNCHANGED vars
Next == OpenTarget \/ WriteBlock \/ Finish \/ Cut \/ Start \/ Done
Spec == Init /\ [][Next]_vars
=============================================================================
