------------------------------ MODULE StoreEval ------------------------------
EXTENDS StoreProps, TLC, Json, IOUtils, SequencesExt
Obs == ndJsonDeserialize("obs.ndjson")
Viol == UNION {{[idx |-> k, which |-> w] : w \in C09(Obs[k].case, Obs[k].obs)} : k \in DOMAIN Obs}
ASSUME ndJsonSerialize("viol.ndjson", SetToSeq(Viol))
ASSUME ndJsonSerialize("evalstats.ndjson", <<[cases |-> Len(Obs),
          nontrivial |-> Cardinality({k \in DOMAIN Obs : Obs[k].case.cut < Obs[k].case.nblocks})]>>)
=============================================================================
