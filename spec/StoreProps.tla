------------------------------ MODULE StoreProps ------------------------------
(* C09 over a case (acknowledged assignment a, assignment b being persisted, where  *)
(* the write was cut) and an outcome o = [acked, starts]: every start succeeds and   *)
(* resumes the previous or the new assignment - the new one if it was acknowledged - *)
(* and a second start resumes the same.  Assignments are identified by name; the      *)
(* harness names what a start really resumed by comparing hash, labels, state, series *)
(* estimates per job and the idle-since instant with the concrete a and b ("other" if *)
(* it is neither, "empty" for an empty assignment with a fresh idle instant).         *)
EXTENDS Integers, Sequences, FiniteSets

Prev(case) == IF case.a = "none" THEN "empty" ELSE case.a
Allowed(case, o) == (IF o.acked THEN {} ELSE {Prev(case)}) \cup {case.b}

C09(case, o) ==
  (IF Len(o.starts) < 2 THEN {"not-started"} ELSE {})
  \cup {"start-fails" : k \in {k \in DOMAIN o.starts : ~o.starts[k].ok}}
  \cup {"resumes-neither-previous-nor-new" :
          k \in {k \in DOMAIN o.starts : o.starts[k].ok /\ o.starts[k].resumed \notin Allowed(case, o)}}
  \cup (IF Len(o.starts) = 2 /\ o.starts[1].ok /\ o.starts[2].ok /\ o.starts[1].resumed # o.starts[2].resumed
          THEN {"second-start-differs"} ELSE {})
  \cup (IF case.cut = case.nblocks /\ ~o.acked THEN {"complete-write-not-acknowledged"} ELSE {})
=============================================================================
