"""The real kvass binary (cmd/kvass, linked with -ldflags=-checklinkname=0): start-up wiring of the sidecar - restart on the
same store directory - driven over HTTP.  Produces observations in the shape of the Store checks (case, obs) so that TLC
evaluates the C09 formulas of StoreProps on them."""
import json, os, shutil, signal, socket, subprocess, threading, time, urllib.request
from http.server import BaseHTTPRequestHandler, HTTPServer
from . import common as C

CFG = '''global:
  scrape_interval: 15s
scrape_configs:
- job_name: j1
  static_configs:
  - targets: ["10.0.0.1:9100"]
- job_name: j2
  static_configs:
  - targets: ["10.0.0.2:9100"]
'''


def tgt(h, job, addr, state='', series=0, total=0, extra=None):
    lb = {'__address__': addr, 'instance': addr, 'job': job, '__metrics_path__': '/metrics', '__scheme__': 'http'}
    lb.update(extra or {})
    return dict(hash=h, labels=lb, series=series, totalSeries=total, TargetState=state)


ASSIGN = {
    'B0': {},
    'B1': {'j1': [tgt(11, 'j1', '10.0.0.1:9100', '', 7, 9)]},
    'B2': {'j1': [tgt(11, 'j1', '10.0.0.1:9100', 'in_transfer', 7, 9),
                  tgt(18446744073709551615, 'j1', '[fe80::1]:9100', '', 100, 2000, {'note': 'quote" back\\slash \n <&> é中'})],
           'j2': [tgt(8385051230265437837, 'j2', '10.0.0.2:9100', '', 3, 4)]},
}


def free_port():
    s = socket.socket()
    s.bind(('127.0.0.1', 0))
    p = s.getsockname()[1]
    s.close()
    return p


class FakeProm(BaseHTTPRequestHandler):
    def log_message(self, *a):
        pass

    def do_POST(self):
        self.send_response(200)
        self.end_headers()

    def do_GET(self):
        body = json.dumps(dict(status='success', data=dict(headStats=dict(numSeries=0)))).encode()
        self.send_response(200)
        self.send_header('Content-Type', 'application/json')
        self.end_headers()
        self.wfile.write(body)


def http(method, url, body=None, timeout=5):
    data = None if body is None else json.dumps(body).encode()
    req = urllib.request.Request(url, data=data, method=method, headers={'Content-Type': 'application/json'})
    with urllib.request.urlopen(req, timeout=timeout) as r:
        txt = r.read().decode()
    return json.loads(txt) if txt.strip() else {}


def build(scratch):
    repo = os.environ.get('KVASS_REPO', '/repo')
    src = os.path.join(scratch, 'kvsrc')
    subprocess.run(['rsync', '-a', '--exclude', '.git', repo + '/', src + '/'], check=True)
    env = dict(os.environ, GOFLAGS='-mod=mod', GOPROXY='off', GOSUMDB='off', GOTOOLCHAIN='local')
    out = os.path.join(scratch, 'kvass-bin')
    r = subprocess.run(['go', 'build', '-ldflags=-checklinkname=0', '-o', out, './cmd/kvass'], cwd=src, env=env, stdout=subprocess.PIPE, stderr=subprocess.STDOUT)
    shutil.rmtree(src, ignore_errors=True)
    if r.returncode != 0:
        raise C.Inconclusive('cmd/kvass does not build: %s' % r.stdout.decode()[-800:])
    return out


def snapshot(api):
    st = http('GET', api + '/api/v1/shard/targets/status/')['data'] or {}
    rt = http('GET', api + '/api/v1/shard/runtimeinfo/')['data']
    return ({int(h): (v['TargetState'], v['series'], v['totalSeries']) for h, v in st.items()}, rt.get('IdleStartAt'))


def expected(name):
    return {t['hash']: (t['TargetState'], t['series'], t['totalSeries']) for ts in ASSIGN[name].values() for t in ts}


def run_cases(scratch):
    binp = build(scratch)
    prom = HTTPServer(('127.0.0.1', 0), FakeProm)
    threading.Thread(target=prom.serve_forever, daemon=True).start()
    promurl = 'http://127.0.0.1:%d' % prom.server_address[1]
    obs = []
    try:
        for a, b, mode in [('none', 'B1', 'push'), ('B1', 'B2', 'push'), ('B2', 'B0', 'file'), ('none', 'B0', 'push'), ('B0', 'B2', 'file')]:
            d = os.path.join(scratch, 'bin-%s-%s-%s' % (a, b, mode))
            os.makedirs(os.path.join(d, 'store'))
            cfgfile = ''
            if mode == 'file':
                cfgfile = os.path.join(d, 'prometheus.yml')
                open(cfgfile, 'w').write(CFG)
            api = 'http://127.0.0.1:%d' % free_port()

            def start():
                p = subprocess.Popen([binp, 'sidecar', '--store.path=' + os.path.join(d, 'store'), '--config.file=' + cfgfile,
                                      '--config.output-file=' + os.path.join(d, 'injected.yml'), '--web.api-addr=' + api[len('http://'):],
                                      '--web.proxy-addr=127.0.0.1:%d' % free_port(), '--prometheus.url=' + promurl, '--shard.fetch-head-series=false'],
                                     stdout=subprocess.DEVNULL, stderr=subprocess.DEVNULL)
                for _ in range(100):
                    if p.poll() is not None:
                        return p, False
                    try:
                        http('GET', api + '/api/v1/shard/runtimeinfo/', timeout=1)
                        return p, True
                    except Exception:
                        time.sleep(0.05)
                return p, False

            def stop(p):
                if p.poll() is None:
                    p.send_signal(signal.SIGKILL)
                    p.wait()
            p, up = start()
            o = dict(acked=False, starts=[])
            idle_before = None
            if up:
                try:
                    if mode == 'push':
                        http('POST', api + '/api/v1/status/config/', dict(rawContent=CFG))
                    if a != 'none':
                        http('POST', api + '/api/v1/shard/targets/', dict(targets=ASSIGN[a]))
                    r = http('POST', api + '/api/v1/shard/targets/', dict(targets=ASSIGN[b]))
                    o['acked'] = r.get('status') == 'success'
                    _, idle_before = snapshot(api)
                except Exception as e:
                    o['err'] = str(e)[:200]
            stop(p)
            idles = []
            for k in range(2):
                p, up = start()
                s = dict(ok=bool(up), resumed='empty')
                if up:
                    try:
                        got, idle = snapshot(api)
                        idles.append(idle)
                        if got == expected(b) and (idle is not None) == (not expected(b)):
                            s['resumed'] = b
                        elif a != 'none' and got == expected(a):
                            s['resumed'] = a
                        elif not got:
                            s['resumed'] = 'empty'
                        else:
                            s['resumed'], s['detail'] = 'other', json.dumps({str(h): v for h, v in got.items()})[:300]
                        if s['resumed'] == b and not expected(b) and idle != idle_before:
                            s['resumed'], s['detail'] = 'other', 'idle since %s before the restart, %s after it' % (idle_before, idle)
                    except Exception as e:
                        s['ok'], s['detail'] = False, str(e)[:200]
                stop(p)
                o['starts'].append(s)
            obs.append(dict(case=dict(a=a, b=b, nblocks=3, cut=3, retry=False, bytes=-1, how='binary-' + mode), out=dict(acked=True, starts=[dict(ok=True, resumed=b)] * 2), obs=o))
    finally:
        prom.shutdown()
    return obs
