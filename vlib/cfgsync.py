"""C16: the configuration hash and the in-sync verdict (spec/ConfigSync.tla; harness `kvh cfghash`,
`kvh cfgsync`).  The set of setting classes the hash can see is MEASURED on the real code and handed
to the specification as the constant HashView; TLC then decides whether the protocol can call a shard
in sync that runs another configuration, and the protocol consequence is replayed on the real
coordinator and sidecar."""
import json, os, re, time
from . import common as C


def q(s):
    return '"%s"' % s.replace('\\', '\\\\').replace('"', '\\"')


def cfg(classes, view):
    return '''CONSTANTS
  Classes = {%s}
  HashView = {%s}
  Shards = {1, 2}
  MaxVersion = 2
SPECIFICATION Spec
INVARIANTS InSyncIsTruthful NoFalseOutOfSync
CHECK_DEADLOCK FALSE
''' % (', '.join(q(c) for c in classes), ', '.join(q(c) for c in view))


def group(cls):
    """setting classes are grouped by section and kind of field so that the model stays small"""
    sec = cls.split('.')[0].split('[')[0] or 'root'
    leaf = cls.split('.')[-1].split('[')[0]
    if leaf == 'regex':
        return sec + ':regex'
    if leaf in ('password', 'bearer_token'):
        return sec + ':secret'
    if '_sd_configs' in cls or 'static_configs' in cls:
        return sec + ':discovery'
    return sec + ':other'


def check(prop, tier, replay=None):
    t0 = time.time()
    with C.Scratch(prop) as scratch:
        kvh = C.build_harness(scratch)
        sd = C.stage_specs(scratch)
        # (1) measurement on the real code
        ch = os.path.join(sd, 'ch.ndjson')
        C.run([kvh, 'cfghash', '-out', ch], timeout=1200)
        recs = [r for r in C.read_ndjson(ch)]
        loaded = [r for r in recs if r.get('loads')]
        sem = [r for r in loaded if r['kind'] == 'semantic']
        groups = sorted(set(group(r['class']) for r in sem))
        view = sorted(g for g in groups if all(r['changed'] for r in sem if group(r['class']) == g))
        invisible = [r for r in sem if not r['changed']]
        # (2) the protocol with the measured view: TLC decides InSyncIsTruthful
        # classes the hash sees behave alike, and so do those it does not see: the model is run over two visible
        # representatives plus one class per invisible group (a sound abstraction of the measured partition)
        inv_groups = sorted(set(groups) - set(view))
        m_classes = ['visible-1', 'visible-2'] + ['invisible:' + g for g in inv_groups[:2]]
        mc = C.tlc(sd, 'ConfigSync', 'mc.cfg', cfg_text=cfg(m_classes, ['visible-1', 'visible-2']), timeout=600)
        model_violated = 'InSyncIsTruthful' in mc['violated']
        if not mc['ok'] and not model_violated:
            C.require_ok(mc, 'ConfigSync')
        # (3) protocol replay on the real coordinator + sidecar for one edit of every class (quick: every group)
        want = {}
        for r in sem:
            key = r['class'] if tier == 'thorough' else group(r['class'])
            if key not in want or (not r['changed'] and want[key]['changed']):
                want[key] = r
        paths = sorted(set(r['path'] for r in want.values()) | set(r['path'] for r in invisible))
        cs = os.path.join(sd, 'cs.ndjson')
        C.run([kvh, 'cfgsync', '-out', cs, '-paths', ','.join(paths)], timeout=1200)
        sync = C.read_ndjson(cs)
        violations = []
        for r in invisible:
            violations.append(dict(sig=dict(which='semantic-edit-keeps-hash', group=group(r['class'])),
                                   replay=dict(property=prop, edit=r),
                                   text='edit of %s (%s) does not change the configuration hash' % (r['path'], r['what'])))
        for r in loaded:
            if r['kind'] in ('format', 'extlabel') and r['changed']:
                violations.append(dict(sig=dict(which='cosmetic-edit-changes-hash', kind=r['kind']), replay=dict(property=prop, edit=r),
                                       text='%s edit (%s) changes the configuration hash' % (r['kind'], r['what'])))
            if not r.get('childEqual', True) or not r.get('apiEqual', True) or not r.get('fileEqual', True):
                violations.append(dict(sig=dict(which='hash-differs-between-processes'), replay=dict(property=prop, edit=r),
                                       text='hash of the same content differs in another process / over the sidecar API / between loading from a file and from pushed content (%s %s)' % (r['path'], r['what'])))
        for r in sync:
            if r['treatedInSync'] and not r['shardRunsCoordinatorConfig']:
                violations.append(dict(sig=dict(which='in-sync-with-other-configuration', group=group(r['class'])), replay=dict(property=prop, protocol=r),
                                       text='coordinator reloaded an edit of %s; the shard still runs the old configuration but got %s' % (r['path'], r['reqs'])))
            if r['pushed'] and not r['shardRunsCoordinatorConfig']:
                violations.append(dict(sig=dict(which='push-does-not-deliver-the-coordinators-configuration'), replay=dict(property=prop, protocol=r),
                                       text='after the push of an edit of %s the shard does not hold the coordinator\'s content' % r['path']))
            if not r.get('prometheusRanCoordinatorConfigWhenTreatedInSync2', True):
                violations.append(dict(sig=dict(which='in-sync-while-prometheus-runs-another-configuration'), replay=dict(property=prop, protocol=r),
                                       text='the push of an edit of %s was answered with an error (the reload of Prometheus failed); in the next cycle the shard reports the '
                                            'coordinator\'s hash and is given %s while its Prometheus still runs the old configuration' % (r['path'], r['reqs2'])))
            if not r.get('prometheusRunsCoordinatorConfigAfter2', True):
                violations.append(dict(sig=dict(which='in-sync-and-prometheus-reloaded-with-another-configuration'), replay=dict(property=prop, protocol=r),
                                       text='the push of an edit of %s was answered with an error (the reload of Prometheus failed)%s; in the next cycle the shard is in sync and is given %s, '
                                            'after which its Prometheus runs a configuration that is not the coordinator\'s' % (r['path'], ', the edit was taken back' if r.get('editTakenBack') else '', r['reqs2'])))
            if r['shardRunsCoordinatorConfig'] and (r['pushedAgain'] or not r['treatedInSync2']) and not r.get('reloadFailedAtPush'):
                violations.append(dict(sig=dict(which='same-configuration-not-in-sync', extra=r['withExtraConfig']), replay=dict(property=prop, protocol=r),
                                       text='the shard holds exactly the coordinator\'s configuration (edit of %s%s) and is still treated as out of sync in the next cycle: %s' % (
                                           r['path'], ', stop reason set before the reload' if r['withExtraConfig'] else '', r['reqs2'])))
        drift = []
        if model_violated != bool(invisible):
            drift.append('ConfigSync.tla with the measured HashView %s InSyncIsTruthful but the measurement found %d invisible edits' % (
                'violates' if model_violated else 'satisfies', len(invisible)))
        cov = dict(states=mc['distinct'], transitions=mc['generated'],
                   traces_validated_against_impl=len(sync),
                   samples=[dict(edit=r) for r in sem[:2]] + [dict(protocol_replay=r) for r in sync[:1]],
                   evaluations=len(loaded), distinct_nontrivial=len(set(r['class'] for r in sem)),
                   rule='one evaluation = one single-leaf edit (scalar, list entry added/removed, regex, secret, discovery option) / re-formatting / external-label edit of a '
                        'catalogue configuration with every section, hashed by the real ConfigManager in this process, in a child process and through a real sidecar service '
                        '(GET /runtimeinfo/ after a config push); non-trivial: distinct setting classes (paths without indices) with a loadable semantic edit',
                   setting_groups=groups, hash_view_measured=view, edits_not_loadable=len(recs) - len(loaded),
                   protocol_replays=len(sync), exhaustive=False,
                   explanation='the measured HashView is the constant of ConfigSync.tla; TLC explores reloads, cosmetic changes, cycles and lost pushes for 2 shards and decides '
                               'InSyncIsTruthful; for one edit per class the real Coordinator cycle is run against a real sidecar that still holds the old configuration')
        return C.conclude(prop, tier, 'model_checking', cov, t0, violations,
                          assumptions=['single-leaf edits only: combinations of edits that cancel in the hash are not searched',
                                       'hashstructure collisions are not excluded'], drift=drift)
