"""Shared machinery of the kvass TLA+ verification checks: scratch dirs, harness build,
TLC runs, evidence files, known findings, verdict lines."""
import json, os, re, shutil, subprocess, sys, tempfile, time, glob

ROOT = os.path.dirname(os.path.dirname(os.path.abspath(__file__)))
SPEC = os.path.join(ROOT, 'spec')
HARNESS = os.path.join(ROOT, 'harness')
REPO = os.environ.get('KVASS_REPO', '/repo')
EVID = os.environ.get('VERIF_EVID') or os.path.join(ROOT, 'evidence')
REPLAYS = os.path.join(ROOT, 'out', 'replays')
TLA_JAR = '/opt/veriftools/tla/tla2tools.jar'

GOENV = dict(GOFLAGS='-mod=mod', GOPROXY='off', GOSUMDB='off', GOTOOLCHAIN='local')


class Inconclusive(Exception):
    """The machinery failed (build, TLC, driver): exit 2, never a violation."""


def seed():
    try:
        return int(os.environ.get('VERIF_SEED', '1'))
    except ValueError:
        return 1


def ncpu():
    return max(1, min(16, os.cpu_count() or 1))


class Scratch:
    def __init__(self, tag):
        self.dir = tempfile.mkdtemp(prefix='kvverif-%s-' % tag, dir=os.environ.get('VERIF_TMP', '/var/tmp'))

    def __enter__(self):
        return self.dir

    def __exit__(self, *a):
        if os.environ.get('VERIF_KEEP'):
            sys.stderr.write('scratch kept: %s\n' % self.dir)
        else:
            shutil.rmtree(self.dir, ignore_errors=True)


def run(cmd, cwd=None, env=None, timeout=None, check=True, stdin=None):
    e = dict(os.environ)
    if env:
        e.update(env)
    p = subprocess.run(cmd, cwd=cwd, env=e, timeout=timeout, stdout=subprocess.PIPE, stderr=subprocess.PIPE,
                       input=stdin)
    if check and p.returncode != 0:
        raise Inconclusive('command failed (%d): %s\n%s\n%s' % (
            p.returncode, ' '.join(cmd), p.stdout.decode(errors='replace')[-3000:], p.stderr.decode(errors='replace')[-3000:]))
    return p


def build_harness(scratch):
    """Builds kvh from the repository's current working tree (REPO, default /repo) with the verif
    tag.  The harness module is copied to the scratch directory first, so that neither /verif nor
    /repo is written to (go -mod=mod rewrites go.mod / go.sum of the module it builds)."""
    out = os.path.join(scratch, 'kvh')
    hdir = os.path.join(scratch, 'harness')
    if os.path.exists(hdir):
        shutil.rmtree(hdir)
    shutil.copytree(HARNESS, hdir)
    src_sum = os.path.join(REPO, 'go.sum')
    if os.path.exists(src_sum):
        shutil.copyfile(src_sum, os.path.join(hdir, 'go.sum'))
    gomod = os.path.join(hdir, 'go.mod')
    txt = open(gomod).read()
    txt = re.sub(r'replace tkestack.io/kvass => \S+', 'replace tkestack.io/kvass => %s' % REPO, txt)
    open(gomod, 'w').write(txt)
    try:
        run(['go', 'build', '-tags', 'verif', '-o', out, './cmd/kvh'], cwd=hdir, env=GOENV, timeout=900)
    except Inconclusive as e:
        raise Inconclusive('harness does not build against %s: %s' % (REPO, e))
    return out


def run_sharded(kvh, sub, infile, outfile, extra=None, nproc=None, timeout=3000):
    """Runs `kvh <sub> -in chunk -out part` in nproc processes over the lines of infile and
    concatenates the outputs (each process has its own virtual clock / package state)."""
    nproc = nproc or ncpu()
    lines = open(infile).read().splitlines()
    nproc = max(1, min(nproc, len(lines)))
    procs = []
    for i in range(nproc):
        part = lines[i::nproc]
        pin = '%s.part%d' % (infile, i)
        pout = '%s.part%d' % (outfile, i)
        open(pin, 'w').write('\n'.join(part) + '\n')
        procs.append((subprocess.Popen([kvh, sub, '-in', pin, '-out', pout] + (extra or []),
                                       stdout=subprocess.PIPE, stderr=subprocess.PIPE), pin, pout))
    with open(outfile, 'w') as out:
        for p, pin, pout in procs:
            try:
                so, se = p.communicate(timeout=timeout)
            except subprocess.TimeoutExpired:
                p.kill()
                raise Inconclusive('kvh %s timed out' % sub)
            if p.returncode != 0:
                txt = se.decode(errors='replace')
                raise Inconclusive('kvh %s failed (%d): %s ... %s' % (sub, p.returncode, txt[:600], txt[-2000:]))
            if os.path.exists(pout):
                out.write(open(pout).read())
                os.remove(pout)
            os.remove(pin)


def stage_specs(scratch):
    d = os.path.join(scratch, 'spec')
    os.makedirs(d, exist_ok=True)
    for f in glob.glob(os.path.join(SPEC, '*.tla')) + glob.glob(os.path.join(SPEC, '*.cfg')):
        shutil.copy(f, d)
    return d


_STATES = re.compile(r'(\d+) states generated, (\d+) distinct states found')


def tlc(specdir, module, cfg, workers=None, timeout=1800, simulate=None, depth=None, extra=None, heap=None,
        cfg_text=None, deadlock=False):
    """Runs TLC; returns dict(states, distinct, out, violated, ok)."""
    md = tempfile.mkdtemp(prefix='md-', dir=specdir)
    if cfg_text is not None:
        open(os.path.join(specdir, cfg), 'w').write(cfg_text)
    cmd = ['java']
    cmd += ['-XX:+UseParallelGC', '-Xss64m', '-Xmx%s' % (heap or '8g'), '-cp', TLA_JAR + ':' + os.path.dirname(TLA_JAR) + '/*']
    cmd += ['tlc2.TLC', '-metadir', md, '-config', cfg, '-workers', str(workers or ncpu()), '-seed', str(seed()), '-noGenerateSpecTE']
    if not deadlock:
        cmd += ['-deadlock']
    if simulate:
        cmd += ['-simulate', simulate]
    if depth:
        cmd += ['-depth', str(depth)]
    if extra:
        cmd += extra
    cmd += [module]
    t0 = time.time()
    try:
        p = run(cmd, cwd=specdir, timeout=timeout, check=False)
    except subprocess.TimeoutExpired:
        raise Inconclusive('TLC timed out after %ss on %s/%s' % (timeout, module, cfg))
    out = p.stdout.decode(errors='replace') + p.stderr.decode(errors='replace')
    shutil.rmtree(md, ignore_errors=True)
    m = None
    for m in _STATES.finditer(out):
        pass
    res = dict(out=out, rc=p.returncode, wall=time.time() - t0,
               generated=int(m.group(1)) if m else 0, distinct=int(m.group(2)) if m else 0,
               violated=re.findall(r'Invariant (\S+) is violated', out) + re.findall(r'property (\S+) was violated', out) + re.findall(r'Action property (\S+) is violated', out))
    res['ok'] = (p.returncode == 0 and 'Error:' not in out)
    return res


def tlc_classpath_probe():
    return os.path.exists(TLA_JAR)


def require_ok(res, what):
    if not res['ok']:
        raise Inconclusive('TLC failed on %s (rc=%s):\n%s' % (what, res['rc'], res['out'][-4000:]))


def read_ndjson(path):
    out = []
    if not os.path.exists(path):
        return out
    with open(path) as f:
        for line in f:
            line = line.strip()
            if line:
                v = json.loads(line)
                if isinstance(v, str):      # CSVWrite("%1$s", ToJson(..)) quotes the JSON text
                    v = json.loads(v)
                out.append(v)
    return out


def write_ndjson(path, recs):
    with open(path, 'w') as f:
        for r in recs:
            f.write(json.dumps(r, sort_keys=True, separators=(',', ':')) + '\n')


def load_known():
    p = os.path.join(ROOT, 'known_findings.json')
    if not os.path.exists(p):
        return []
    return json.load(open(p)).get('findings', [])


def match_known(prop, sig):
    """sig: dict describing one violation.  A known finding matches when it is open, for this
    property, and every key of its 'match' equals the violation's value (lists = any of)."""
    for k in load_known():
        if k.get('property') != prop or k.get('status') != 'open':
            continue
        ok = True
        for key, want in k.get('match', {}).items():
            have = sig.get(key)
            if isinstance(want, list):
                if have not in want:
                    ok = False
            elif have != want:
                ok = False
        if ok:
            return k
    return None


def write_evidence(prop, tier, level, coverage, wall, violations=0, assumptions=None):
    global EVID
    if prop.startswith('X') and not EVID.endswith('extra'):
        EVID = os.path.join(EVID, 'extra')      # checks beyond the listed properties keep their evidence apart
    os.makedirs(EVID, exist_ok=True)
    ev = dict(property_id=prop, tier=tier, seed=seed(), level=level, coverage=coverage,
              wall_s=round(wall, 2), violations=violations, assumptions=assumptions or [])
    tmp = os.path.join(EVID, '.%s.json.tmp' % prop)
    with open(tmp, 'w') as f:
        json.dump(ev, f, indent=1, sort_keys=True)
    os.replace(tmp, os.path.join(EVID, '%s.json' % prop))


def write_replay(prop, payload):
    os.makedirs(REPLAYS, exist_ok=True)
    n = 0
    while True:
        p = os.path.join(REPLAYS, '%s-seed%d-%d.json' % (prop, seed(), n))
        if not os.path.exists(p):
            break
        n += 1
    with open(p, 'w') as f:
        json.dump(payload, f, indent=1, sort_keys=True)
    return p


def conclude(prop, tier, level, coverage, t0, violations, assumptions=None, drift=None):
    """violations: list of dict(sig=dict, replay=payload, text=str).  Prints verdict lines,
    writes evidence, returns exit code."""
    known_seen, fresh = {}, []
    for v in violations:
        k = match_known(prop, v['sig'])
        if k:
            known_seen.setdefault(k['id'], [k, 0])[1] += 1
        else:
            fresh.append(v)
    for kid, (k, n) in sorted(known_seen.items()):
        print('KNOWN-FINDING: property=%s %s [%s; observed %d times in this run]' % (prop, k['what'], kid, n))
    coverage = dict(coverage)
    coverage['known_findings_observed'] = sorted(known_seen)
    if drift:
        coverage['conformance_failures'] = drift[:20]
        for d in drift[:5]:
            print('DRIFT property=%s %s' % (prop, d))
        if level == 'model_checking':
            level = 'exploration'
            coverage.setdefault('evaluations', coverage.get('traces_validated_against_impl', 0) + len(drift))
            coverage.setdefault('distinct_nontrivial', coverage.get('nontrivial', 0))
            coverage.setdefault('rule', 'see explanation; level downgraded because the implementation left the model')
    rc = 0
    shown = set()
    for v in fresh:
        key = json.dumps(v['sig'], sort_keys=True)
        if key in shown and len(shown) >= 1:
            continue
        shown.add(key)
        if len(shown) > 5:
            break
        path = write_replay(prop, v['replay'])
        print('VIOLATION property=%s replay=%s' % (prop, path))
        if v.get('text'):
            print('  ' + v['text'])
        rc = 1
    write_evidence(prop, tier, level, coverage, time.time() - t0, violations=len(fresh), assumptions=assumptions)
    if rc == 0:
        print('OK property=%s tier=%s seed=%d' % (prop, tier, seed()))
    return rc
