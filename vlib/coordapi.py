"""X01 (beyond the listed properties): the coordinator's query API (spec/CoordAPI.tla, MCCoordAPI.tla,
CoordAPIEval.tla; harness `kvh coordapi`)."""
import json, os, time
from . import common as C


def check(prop, tier, replay=None):
    t0 = time.time()
    with C.Scratch(prop) as scratch:
        kvh = C.build_harness(scratch)
        sd = C.stage_specs(scratch)
        cases_f = os.path.join(sd, 'cases.ndjson')
        open(cases_f, 'w').close()
        nworlds = 40 if tier == 'quick' else 400
        mc = C.tlc(sd, 'MCCoordAPI', 'mc.cfg', workers=1, timeout=3000, heap='12g', cfg_text='''CONSTANTS
  OutFile = "cases.ndjson"
  NWorlds = %d
SPECIFICATION Spec
INVARIANTS Export Inv_Guarantees
CHECK_DEADLOCK FALSE
''' % nworlds)
        C.require_ok(mc, 'MCCoordAPI')
        cases = C.read_ndjson(cases_f)
        if replay:
            cases = [json.load(open(replay))['case']]
        for i, c in enumerate(cases):
            c['n'] = i
        C.write_ndjson(cases_f, [dict(n=c['n'], case=dict(w=c['w'], q=c['q'])) for c in cases])
        obs_f = os.path.join(sd, 'obs.ndjson')
        C.run_sharded(kvh, 'coordapi', cases_f, obs_f)
        obs = {o['n']: o for o in C.read_ndjson(obs_f)}
        recs = []
        for c in cases:
            o = obs[c['n']]
            t = o['targets']
            if t.get('other'):
                raise C.Inconclusive('answer outside the projection: %s' % t['other'])
            recs.append(dict(w=c['w'], q=c['q'], targets=dict(error=t['error'], active=t['active'], stats=t['stats'], dropped=t['dropped']), runtime=o['runtime'],
                             mutated=bool(t.get('mutated'))))
        C.write_ndjson(obs_f, recs)
        ev = C.tlc(sd, 'CoordAPIEval', 'eval.cfg', cfg_text='', workers=1, timeout=3000, heap='12g')
        C.require_ok(ev, 'CoordAPIEval')
        drift = ['case %s: CoordAPI.tla predicts %s / %s, the real service answered %s / %s' % (
            json.dumps(dict(w=cases[d['idx'] - 1]['w'], q=cases[d['idx'] - 1]['q']), sort_keys=True), json.dumps(cases[d['idx'] - 1]['targets'], sort_keys=True),
            cases[d['idx'] - 1]['runtime'], json.dumps(recs[d['idx'] - 1]['targets'], sort_keys=True), recs[d['idx'] - 1]['runtime'])
            for d in C.read_ndjson(os.path.join(sd, 'differs.ndjson'))]
        violations = []
        for v in C.read_ndjson(os.path.join(sd, 'viol.ndjson')):
            c = cases[v['idx'] - 1]
            violations.append(dict(sig=dict(which=v['which']), replay=dict(property=prop, case=c, observed=recs[v['idx'] - 1]),
                                   text='%s: world %s query %s answer %s' % (v['which'], json.dumps(c['w'], sort_keys=True), json.dumps(c['q'], sort_keys=True),
                                                                           json.dumps(recs[v['idx'] - 1]['targets'], sort_keys=True)[:400])))
        cov = dict(states=mc['distinct'], transitions=mc['generated'], traces_validated_against_impl=len(cases) - len(drift),
                   samples=[dict(world=c['w'], query=c['q'], predicted=c['targets'], observed=recs[i]['targets']) for i, c in enumerate(cases[-2:])],
                   evaluations=len(cases), distinct_nontrivial=sum(1 for c in cases if c['w']['jobs'] and not c['targets']['error']),
                   rule='one evaluation = one (world, query) pair sampled by TLC: the real coordinator.Service is built over the world and asked GET /api/v1/targets?<query> and /api/v1/runtimeinfo; '
                        'non-trivial: the world has jobs and the query is accepted',
                   exhaustive=False,
                   explanation='CoordAPI.tla specifies the answers as functions of (world, query); TLC samples worlds and queries, predicts the answers and checks the user-level guarantees on '
                               'the predictions; the real answers must equal the predictions (conformance) and TLC evaluates the guarantees on the real answers')
        return C.conclude(prop, tier, 'model_checking', cov, t0, violations, assumptions=['regular-expression semantics are Go\'s: a pattern is given to the specification with its match set'], drift=drift)
