"""Single-cycle pipeline for C01, C04, C05, C07, C08 (spec/Rebalance.tla):
   inputs (grid + seeded sample) -> TLC enumerates all outcomes of the model per input and checks
   the property formulas on the model -> kvh runs the real Coordinator on the same inputs ->
   membership of every observed outcome in the model's outcome set (conformance) -> TLC
   evaluates the property formulas on the observed (input, outcome) pairs (verdict)."""
import json, os, random, time, itertools
from . import common as C

PROPS = ['C01', 'C04', 'C05', 'C07', 'C08']

# constants of the model that mirror the current /repo (pinned by the conformance step)
MODEL_CONSTANTS = dict(MinWait=3, HeadReliefChecksProc='TRUE', TooBigUsesTotal='TRUE', EarlyByShardCount='TRUE', TailNeedsEmpty='TRUE', TooBigFirst='TRUE', TieBreakByOrder='TRUE', RevertOrphanTransfer='TRUE')
PINNED_CONSTANTS = dict(MinWait=0, HeadReliefChecksProc='FALSE', TooBigUsesTotal='FALSE', EarlyByShardCount='FALSE', TailNeedsEmpty='FALSE', TooBigFirst='FALSE', TieBreakByOrder='FALSE', RevertOrphanTransfer='FALSE')

MODES = ['ok', 'notready', 'statusfail', 'rtfail', 'pushfail', 'rt2fail', 'stale', 'pushok']
HEALTH = ['up', 'down', 'unknown']


def mk_entry(rnd, t, maxHead, maxProc, rich=True):
    series = rnd.choice([0, 1, 2, 3, 4, 5, 6, 8, 9, 11, 12])
    total = series + rnd.choice([0, 0, 0, 1, 3, 8, 12, 15, 21])
    return dict(t=t, state=rnd.choice(['', '', '', 'in_transfer']),
                health=rnd.choice(['up', 'up', 'up', 'up', 'down', 'unknown']),
                times=rnd.choice([0, 1, 2, 3, 3, 4, 7]), series=series, total=total)


def gen_fullrelief(rnd, idn):
    """Directed family: an overloaded shard with settled targets, a second shard that is nearly full
    (in the dimension that matters) and a third one with room, in any order."""
    maxHead = rnd.choice([0, 0, 10, 10])
    maxProc = rnd.choice([20, 30])
    dim = 'proc' if maxHead == 0 or rnd.random() < 0.4 else 'head'

    def ent(t, series, total):
        return dict(t=t, state='', health='up', times=rnd.choice([3, 4, 7]), series=series, total=total)
    if dim == 'proc':
        a = [ent(1, rnd.choice([2, 3]), maxProc // 2 + rnd.choice([0, 1, 2])), ent(2, rnd.choice([1, 2]), maxProc // 2 + rnd.choice([0, 3]))]
        b = [ent(3, rnd.choice([1, 2]), maxProc - rnd.choice([3, 5, 6]))]
    else:
        a = [ent(1, 6, rnd.choice([6, 7])), ent(2, rnd.choice([5, 6, 8]), 8)]
        b = [ent(3, rnd.choice([7, 8, 9]), 9)]
    roles = [a, b, []]
    rnd.shuffle(roles)
    shards = []
    for rep in roles:
        shards.append(dict(mode='ok', report=rep, head=sum(e['series'] for e in rep) + (rnd.choice([0, 1]) if rep else 0), proc=sum(e['total'] for e in rep),
                           idle='none' if rep else rnd.choice(['fresh', 'expired']), postFail=False))
    explore = [dict(t=e['t'], state='', health='up', times=0, series=e['series'], total=e['total']) for e in a + b if rnd.random() < 0.7]
    return dict(id=idn, fam='fullrelief', opts=dict(maxHead=maxHead, maxProc=maxProc, minShard=rnd.choice([0, 1, 3]), maxShard=rnd.choice([3, 4, 9]),
                                                    maxIdle=rnd.choice([0, 1]), noAlleviate=False),
                shards=shards, active=[1, 2, 3], explore=explore, failScale=0)


def gen_procfull(rnd, idn):
    """Directed family: every shard is (nearly) full in one dimension only, and an unscraped healthy target needs room in
    exactly that dimension - e.g. a target whose samples are all dropped by metric relabeling (series 0, total > 0)."""
    maxHead = rnd.choice([0, 10, 10, 20, 30])       # also a head limit at or above the process limit
    maxProc = rnd.choice([20, 30])
    dim = 'proc' if maxHead == 0 or rnd.random() < 0.5 else 'head'
    n = rnd.choice([1, 2, 3])
    shards = []
    for i in range(n):
        if dim == 'proc':
            e = dict(t=i + 1, state='', health='up', times=rnd.choice([3, 7]), series=rnd.choice([1, 2]), total=maxProc - rnd.choice([2, 3, 4]))
        else:
            e = dict(t=i + 1, state='', health='up', times=rnd.choice([3, 7]), series=rnd.choice([8, 9]), total=rnd.choice([9, 10]))
        head = e['series']
        if dim == 'head' and maxHead > 10:
            head = maxHead - rnd.choice([1, 2])      # Prometheus' own head (churn, series waiting for compaction) above what the targets add up to
        shards.append(dict(mode='ok', report=[e], head=head, proc=e['total'], idle='none', postFail=False))
    new = n + 1
    if dim == 'proc':
        x = dict(t=new, state='', health='up', times=0, series=rnd.choice([0, 0, 1]), total=rnd.choice([5, 6, 8]))
    else:
        x = dict(t=new, state='', health='up', times=0, series=rnd.choice([3, 4]), total=rnd.choice([3, 4]))
    explore = [x] + [dict(t=s['report'][0]['t'], state='', health='up', times=0, series=s['report'][0]['series'], total=s['report'][0]['total'])
                     for s in shards if rnd.random() < 0.5]
    return dict(id=idn, fam='procfull', opts=dict(maxHead=maxHead, maxProc=maxProc, minShard=rnd.choice([0, 1]), maxShard=rnd.choice([n + 1, 9]),
                                                  maxIdle=rnd.choice([0, 1]), noAlleviate=rnd.random() < 0.2),
                shards=shards, active=list(range(1, new + 1)), explore=explore, failScale=0)


def gen_realistic(rnd, idn):
    """Directed family: numbers of the size kvass is run with (limits of 100 000 and 50 000 series) instead of the small
    units of the other families, with shards that are nearly - within a fraction of a percent - full and an unscraped
    target that fits into what is left of some of them: ratios, percentages and rounding behave differently out there."""
    maxProc = 100000
    maxHead = rnd.choice([0, 50000])
    # the relief thresholds of the specification are integer arithmetic: only limits for which the code's float arithmetic gives the same
    for num in (11, 14, 16, 18, 2, 5):
        assert int(float(50000) * (num / 10.0)) == (50000 * num) // 10
    n = rnd.choice([1, 2, 3])
    shards, used = [], 0
    for i in range(n):
        free = rnd.choice([120, 300, 499, 500, 950, 5000, 60000])
        tot = maxProc - free
        ser = min(tot, (maxHead - rnd.choice([150, 400, 20000])) if maxHead else rnd.choice([100, 40000]))
        e = dict(t=i + 1, state='', health='up', times=rnd.choice([3, 7]), series=ser, total=tot)
        shards.append(dict(mode='ok', report=[e], head=ser + rnd.choice([0, 0, 50]), proc=tot, idle='none', postFail=False))
    new = n + 1
    x = dict(t=new, state='', health='up', times=0, series=rnd.choice([10, 100, 149]), total=rnd.choice([100, 119, 299, 400]))
    explore = [x] + [dict(t=s['report'][0]['t'], state='', health='up', times=0, series=s['report'][0]['series'], total=s['report'][0]['total'])
                     for s in shards if rnd.random() < 0.5]
    return dict(id=idn, fam='realistic', opts=dict(maxHead=maxHead, maxProc=maxProc, minShard=rnd.choice([0, 1]), maxShard=rnd.choice([n, n + 1, 9]),
                                                   maxIdle=rnd.choice([0, 0, 1]), noAlleviate=False),
                shards=shards, active=list(range(1, new + 1)), explore=explore, failScale=0)


def gen_packing(rnd, idn):
    """Directed family (4 shards): two front shards with some room, a shard that can be emptied into them only if its two
    targets are packed in the right order, and an idle shard behind it whose idle time has expired."""
    maxHead = rnd.choice([0, 10])
    maxProc = 20

    def ent(t, series, total):
        return dict(t=t, state='', health='up', times=rnd.choice([3, 4, 7]), series=series, total=total)
    if maxHead:
        # head rooms 7 and 5 (strictly below the limit: 6 and 4 usable), targets of 5 and 3 series... sizes so that one order fits and the other does not
        f1, f2 = [ent(1, 3, 3)], [ent(2, 5, 5)]
        d = [ent(3, rnd.choice([4, 5]), 5), ent(4, rnd.choice([5, 6]), 6)]
    else:
        f1, f2 = [ent(1, 2, 8)], [ent(2, 2, 11)]
        d = [ent(3, 1, rnd.choice([8, 9])), ent(4, 1, rnd.choice([10, 11]))]
    fronts = [f1, f2]
    rnd.shuffle(fronts)
    reports = fronts + [d, []]
    shards = []
    for rep in reports:
        shards.append(dict(mode='ok', report=rep, head=sum(e['series'] for e in rep), proc=sum(e['total'] for e in rep),
                           idle='none' if rep else 'expired', postFail=False))
    return dict(id=idn, fam='packing', opts=dict(maxHead=maxHead, maxProc=maxProc, minShard=rnd.choice([0, 1]), maxShard=9, maxIdle=1, noAlleviate=False),
                shards=shards, active=[1, 2, 3, 4], explore=[], failScale=0)


def gen_bigneighbour(rnd, idn, maxN, maxK):
    """Directed family: the plainest world (every shard answering and in sync, every target held once, normal, healthy),
    one shard over a limit that holds a target which alone exceeds a limit next to movable ones, another shard with room
    for one of them.  Whether the cycle relieves the shard may not depend on the order its targets are visited in."""
    dim = rnd.choice(['proc', 'proc', 'head'])
    maxHead = 10 if dim == 'head' else rnd.choice([0, 10, 40])
    maxProc = rnd.choice([20, 30]) if dim == 'proc' else 60
    n = rnd.choice([2, 3]) if maxN >= 3 else 2
    k = min(maxK, rnd.choice([3, 4, 5]))
    s = rnd.randrange(n)
    nbig = 1 if k == 3 or rnd.random() < 0.7 else 2
    rep = [[] for _ in range(n)]
    for t in range(1, k + 1):
        if t <= nbig:
            if dim == 'proc':
                series = rnd.choice([1, 2, 3]); total = maxProc + rnd.choice([1, 2, 9])
            else:
                series = maxHead + rnd.choice([1, 2, 5]); total = series + rnd.choice([0, 3])
            times = rnd.choice([1, 3, 7])
        else:
            if dim == 'proc':
                total = rnd.choice([maxProc // 2, maxProc // 2 + 1, maxProc - 3, 7]); series = min(total, rnd.choice([1, 2, 3]))
            else:
                series = rnd.choice([4, 5, 6, 8]); total = series + rnd.choice([0, 2])
            times = rnd.choice([3, 3, 4, 7, 2])
        where = s if (t <= k - 1 or rnd.random() < 0.5) else rnd.choice([j for j in range(n) if j != s])
        rep[where].append(dict(t=t, state='', health='up', times=times, series=series, total=total))
    shards = []
    for j in range(n):
        sseries = sum(e['series'] for e in rep[j]); stotal = sum(e['total'] for e in rep[j])
        head = sseries + (rnd.choice([0, 1, 2]) if j == s else rnd.choice([0, 0, 1, 3]))
        shards.append(dict(mode='ok', report=rep[j], head=head, proc=stotal, idle='none' if rep[j] else rnd.choice(['fresh', 'expired', 'none']),
                           postFail=False))
    explore = [dict(t=e['t'], state='', health='up', times=0, series=e['series'], total=e['total']) for r in rep for e in r if rnd.random() < 0.7]
    return dict(id=idn, fam='bigneighbour', opts=dict(maxHead=maxHead, maxProc=maxProc, minShard=rnd.choice([0, 1]), maxShard=rnd.choice([n, n + 1, 9]),
                                                       maxIdle=rnd.choice([0, 1]), noAlleviate=False),
                shards=shards, active=list(range(1, k + 1)), explore=explore, failScale=0)


def gen_input(rnd, idn, maxN=3, maxK=3):
    """One cycle input.  A family biases the draw towards one mechanism (the plain family is the
    unbiased mixture); every family still randomises everything else."""
    fam = rnd.choice(['plain', 'plain', 'scaledown', 'scaledown', 'relief', 'oversized', 'handover', 'unsynced', 'fullrelief', 'bigneighbour'])
    if fam == 'bigneighbour':
        if maxN >= 2 and maxK >= 3:
            return gen_bigneighbour(rnd, idn, maxN, maxK)
        fam = 'oversized'
    if fam == 'fullrelief' and maxN >= 3 and maxK >= 3:
        x = rnd.random()
        return gen_fullrelief(rnd, idn) if x < 0.4 else gen_procfull(rnd, idn) if x < 0.7 else gen_realistic(rnd, idn) if x < 0.85 else gen_packing(rnd, idn)
    n = min(maxN, rnd.choice([1, 2, 2, 3, 3, 3] if maxN == 3 else [1, 2, 3, 3, 4, 4]))
    if fam in ('scaledown', 'unsynced', 'relief'):
        n = min(maxN, rnd.choice([2, 3, 3, maxN]))
    k = rnd.randint(1, maxK)
    targets = list(range(1, k + 1))
    maxHead = rnd.choice([0, 10, 10, 10])
    maxProc = rnd.choice([20, 20, 30])
    maxIdle = rnd.choice([0, 1, 1])
    if fam == 'scaledown':
        maxIdle = 1
    opts = dict(maxHead=maxHead, maxProc=maxProc,
                minShard=rnd.choice([0, 0, 1, 1, 2, n, n + 1]),
                maxShard=rnd.choice([n, n + 1, n + 3, 9, 9, 9, max(1, n - 1)]),
                maxIdle=maxIdle, noAlleviate=rnd.random() < 0.1)
    if fam == 'scaledown':
        opts['minShard'] = rnd.choice([0, 0, 1])
        opts['maxShard'] = 9
    allok = rnd.random() < (0.55 if fam != 'unsynced' else 0.0)
    owner = {t: rnd.randrange(n) for t in targets}      # scaledown / relief: one holder per target
    relief_free = rnd.choice(targets + [0, 0])
    badpos, badmode = -1, 'ok'
    if fam == 'scaledown' and rnd.random() < 0.5:
        # exactly one shard that is not in sync, anywhere (also in front of the shards being emptied)
        badpos, badmode = rnd.randrange(n), rnd.choice([m for m in MODES if m != 'ok'])
        allok = True
        owner = {t: rnd.choice([i for i in range(n) if i != badpos] or [0]) for t in targets}
        if rnd.random() < 0.6:
            owner = {t: n - 1 if n - 1 != badpos else max(0, n - 2) for t in targets}   # everything on the tail
    shards = []
    for i in range(n):
        mode = 'ok' if allok or rnd.random() < (0.6 if fam != 'unsynced' else 0.4) else rnd.choice(MODES)
        if i == badpos:
            mode = badmode
        rep = []
        for t in targets:
            if fam == 'scaledown':
                if owner[t] == i and rnd.random() < 0.9:
                    e = mk_entry(rnd, t, maxHead, maxProc)
                    e.update(state='', health=rnd.choice(['up', 'up', 'up', 'down']), times=rnd.choice([3, 3, 4, 7, 2]),
                             series=rnd.choice([0, 1, 2, 3]), total=0)
                    e['total'] = e['series'] + rnd.choice([0, 0, 2, 5])
                    rep.append(e)
            elif fam == 'relief':
                # some targets stay unscraped: relief and first assignments meet in the same cycle
                if (owner[t] == i and (t != relief_free)) or rnd.random() < 0.1:
                    e = mk_entry(rnd, t, maxHead, maxProc)
                    e.update(state=rnd.choice(['', '', '', '', 'in_transfer']), health='up', times=rnd.choice([3, 4, 7, 7, 1]),
                             series=rnd.choice([2, 3, 5, 6, 8, 9]))
                    e['total'] = e['series'] + rnd.choice([0, 0, 3, 8, 12])
                    rep.append(e)
            elif fam == 'oversized':
                if rnd.random() < 0.4:
                    e = mk_entry(rnd, t, maxHead, maxProc)
                    if rnd.random() < 0.6:
                        e.update(series=rnd.choice([2, 5, 11, 12]), state='', health='up', times=rnd.choice([3, 7, 1]))
                        e['total'] = rnd.choice([maxProc + 1, maxProc + 5, maxProc, e['series']])
                        e['total'] = max(e['total'], e['series'])
                    rep.append(e)
            elif fam == 'handover':
                if rnd.random() < 0.6:
                    e = mk_entry(rnd, t, maxHead, maxProc)
                    e.update(state=rnd.choice(['', 'in_transfer']), times=rnd.choice([0, 1, 2, 3, 3, 4]), health=rnd.choice(['up', 'up', 'down']),
                             series=rnd.choice([1, 2, 3]), total=rnd.choice([3, 4]))
                    rep.append(e)
            else:
                if rnd.random() < 0.45:
                    rep.append(mk_entry(rnd, t, maxHead, maxProc))
        sseries = sum(e['series'] for e in rep)
        stotal = sum(e['total'] for e in rep)
        head = sseries + rnd.choice([0, 0, 0, 1, 2, 5, 9])      # head >= sum(series): sidecar floor
        if fam == 'relief' and rnd.random() < 0.5:
            head = sseries + rnd.choice([0, 4, 8, 12])
        proc = stotal                                            # process series = sum(total)
        if rnd.random() < 0.05:
            head = rnd.choice([0, 5, 11, 15, 19])               # stale / odd loads a coordinator may still see
        if rep:
            idle = 'none'
        else:
            idle = rnd.choice(['fresh', 'expired', 'expired', 'none'])
        shards.append(dict(mode=mode, report=rep, head=head, proc=proc, idle=idle, postFail=rnd.random() < 0.08))
    active = [t for t in targets if rnd.random() < (0.85 if fam != 'scaledown' else 0.97)]
    explore = []
    for t in targets:
        if rnd.random() < 0.75 or fam in ('scaledown', 'oversized') or (fam == 'relief' and t == relief_free):
            e = mk_entry(rnd, t, maxHead, maxProc)
            e['state'] = ''
            e['times'] = 0
            if rnd.random() < 0.7:
                e['health'] = 'up'
            if fam == 'scaledown' or (fam == 'relief' and t == relief_free):
                e.update(series=rnd.choice([1, 2, 3]), health='up')
                e['total'] = e['series'] + rnd.choice([0, 2])
            if fam == 'oversized' and rnd.random() < 0.6:
                e.update(health='up', series=rnd.choice([1, 5, 8, 11, 12]))
                e['total'] = max(e['series'], rnd.choice([maxProc + 1, maxProc + 3, maxProc, maxProc - 1]))
            explore.append(e)
    return dict(id=idn, fam=fam, opts=opts, shards=shards, active=active, explore=explore,
                failScale=rnd.choice([0, 0, 0, 0, 0, 0, 1, 2]))


def grid_inputs(limit=None):
    """A small exhaustive grid: 2 shards, 1 target, every combination of copy/state/times/health
    class on both shards, explorer knowledge, both limit settings, idle settings (the part of the
    input space on which the hand-over, orphan and in-sync rules hinge)."""
    out = []
    copies = [None] + [dict(state=s, times=tm, health=h)
                       for s in ['', 'in_transfer'] for tm in [0, 2, 3] for h in ['up', 'down']]
    n = 0
    for c1, c2 in itertools.product(copies, copies):
        for m2 in ['ok', 'stale', 'notready']:
            for maxHead, maxIdle in [(10, 0), (0, 1), (10, 1)]:
                for (h1, h2) in [(3, 3), (12, 4), (4, 19)]:
                    shards = []
                    for (c, m, h) in [(c1, 'ok', h1), (c2, m2, h2)]:
                        rep = []
                        if c is not None:
                            rep = [dict(t=1, state=c['state'], times=c['times'], health=c['health'], series=3, total=4)]
                        shards.append(dict(mode=m, report=rep, head=h, proc=(4 if rep else 0),
                                           idle=('none' if rep else 'expired'), postFail=False))
                    n += 1
                    out.append(dict(id='g%d' % n,
                                    opts=dict(maxHead=maxHead, maxProc=20, minShard=1, maxShard=3, maxIdle=maxIdle,
                                              noAlleviate=False),
                                    shards=shards, active=[1],
                                    explore=[dict(t=1, state='', times=0, health='up', series=3, total=4)],
                                    failScale=0))
    if limit:
        rnd = random.Random(7)
        rnd.shuffle(out)
        out = out[:limit]
    return out


def canon_out(o, with_global=False):
    """Canonical form of an outcome for membership comparison."""
    posts = []
    for p in o['posts']:
        ts = sorted((x['t'], x['state'], x['series'], x.get('total', 0)) for x in (p.get('targets') or []))
        posts.append((bool(p['sent']), bool(p['ok']), tuple(ts)))
    reqs = tuple(tuple(r or []) for r in o['reqs'])
    g = []
    if with_global:
        g = [(x['t'], x['health'], x['series'], x['total'], x['times'], x['state'], tuple(x['shards'] or [])) for x in (o.get('global') or [])]
    return json.dumps([reqs, posts, list(o['scales'] or []), bool(o.get('panic')), g])


def cfg_text(infile, outfile, consts, invariants):
    lines = ['CONSTANTS']
    lines += ['  MinWait = %d' % consts['MinWait'],
              '  HeadReliefChecksProc = %s' % consts['HeadReliefChecksProc'],
              '  TooBigUsesTotal = %s' % consts['TooBigUsesTotal'],
              '  EarlyByShardCount = %s' % consts['EarlyByShardCount'],
              '  TailNeedsEmpty = %s' % consts['TailNeedsEmpty'],
              '  TooBigFirst = %s' % consts['TooBigFirst'],
              '  TieBreakByOrder = %s' % consts['TieBreakByOrder'],
              '  RevertOrphanTransfer = %s' % consts['RevertOrphanTransfer'],
              '  ZeroNeedsPlace = %s' % consts.get('ZeroNeedsPlace', 'TRUE'),
              '  TooBigSkipped = %s' % consts.get('TooBigSkipped', 'TRUE'),
              '  InputSet <- Inputs',
              '  InFile = "%s"' % infile,
              '  OutFile = "%s"' % outfile,
              'SPECIFICATION Spec',
              'INVARIANTS ' + ' '.join(invariants),
              'CHECK_DEADLOCK FALSE']
    return '\n'.join(lines) + '\n'


def run_pipeline(tier, scratch, sizes=None, inputs=None, consts=None):
    """Returns dict with inputs, model outcomes, observations, violations, drift, stats."""
    consts = consts or MODEL_CONSTANTS
    rnd = random.Random(C.seed() * 7919 + (1 if tier == 'quick' else 2))
    if inputs is None:
        if tier == 'quick':
            ngrid, nrand, reps, maxN, maxK = 400, 3000, 4, 3, 3
        else:
            ngrid, nrand, reps, maxN, maxK = None, 20000, 8, 4, 4
        if sizes:
            ngrid, nrand, reps = sizes
        inputs = grid_inputs(ngrid) + [gen_input(rnd, 'r%d' % i, maxN, maxK) for i in range(nrand)]
        # one input in eight goes over the wire: the unmodified HTTP client of pkg/api against servers that answer as scripted
        for k, x in enumerate(inputs):
            if k % 8 == 3:
                x['wire'] = True
    else:
        reps = 6
    kvh = C.build_harness(scratch)
    sd = C.stage_specs(scratch)
    inf = os.path.join(sd, 'inputs.ndjson')
    C.write_ndjson(inf, inputs)
    outf = os.path.join(sd, 'outcomes.ndjson')
    open(outf, 'w').close()
    # (1) model: all outcomes per input, formulas on the model (export run, one worker writes the file)
    t0 = time.time()
    res = C.tlc(sd, 'MCRebalance', 'gen.cfg', workers=1,
                cfg_text=cfg_text('inputs.ndjson', 'outcomes.ndjson', consts, ['TypeOK', 'Export']),
                timeout=3000, heap='12g')
    C.require_ok(res, 'MCRebalance generation')
    model = {}
    model_viol = {}
    for r in C.read_ndjson(outf):
        model.setdefault(r['id'], set()).add(canon_out(r['out'], True))
        for p in r.get('viol') or []:
            model_viol.setdefault(p, set()).add(r['id'])
    t_model = time.time() - t0
    # (2) the real coordinator
    t0 = time.time()
    obsf = os.path.join(sd, 'obs.ndjson')
    C.run([kvh, 'cycle', '-in', inf, '-out', obsf, '-reps', str(reps), '-workers', str(C.ncpu())], timeout=3000)
    obs = C.read_ndjson(obsf)
    t_impl = time.time() - t0
    # (3) conformance: observed outcome in the model's outcome set
    drift = []
    byid = {i['id']: i for i in inputs}
    seen_outcomes = {}
    for o in obs:
        c = canon_out(o['out'], True)
        seen_outcomes.setdefault(o['id'], set()).add(c)
        if c not in model.get(o['id'], ()):
            drift.append(dict(id=o['id'], observed=o['out'], model_outcomes=len(model.get(o['id'], ()))))
    # (4) verdict: TLC evaluates the property formulas on the observations
    t0 = time.time()
    violf = os.path.join(sd, 'viol.ndjson')
    C.write_ndjson(os.path.join(sd, 'pairs.ndjson'),
                   [dict(id=o['id'], **{'in': byid[o['id']], 'out': o['out']}) for o in obs])
    # the distinct outcomes of every input that was observed with more than one (repetitions sample map orders / random picks)
    groups, firstidx = {}, {}
    for k, o in enumerate(obs):
        c = canon_out(o['out'], False)
        g = groups.setdefault(o['id'], {})
        if c not in g:
            g[c] = o['out']
            firstidx.setdefault(o['id'], k + 1)
    gl = [dict(id=i, idx=firstidx[i], **{'in': byid[i], 'outs': list(g.values())}) for i, g in groups.items() if len(g) > 1]
    if not gl:   # (never an empty file)
        o = obs[0]
        gl = [dict(id=o['id'], idx=1, **{'in': byid[o['id']], 'outs': [o['out']]})]
    C.write_ndjson(os.path.join(sd, 'groups.ndjson'), gl)
    ev = C.tlc(sd, 'RebalanceEval', 'eval.cfg', workers=1, cfg_text='', timeout=3000, heap='12g')
    C.require_ok(ev, 'RebalanceEval')
    viol = C.read_ndjson(violf)
    stats = C.read_ndjson(os.path.join(sd, 'evalstats.ndjson'))
    t_eval = time.time() - t0
    return dict(inputs=byid, model=model, model_viol=model_viol, obs=obs, drift=drift, viol=viol,
                stats=stats[0] if stats else {}, tlc=res, times=dict(model=t_model, impl=t_impl, eval=t_eval),
                reps=reps, outcomes_seen=sum(len(v) for v in seen_outcomes.values()),
                outcomes_model=sum(len(v) for v in model.values()), consts=consts)


def write_no_groups(sd, pairs):
    """RebalanceEval also reads groups.ndjson (distinct outcomes per repeated input); callers that do not repeat inputs
    hand it one group with one outcome (TLC's reader does not take an empty file)."""
    p = pairs[0]
    C.write_ndjson(os.path.join(sd, 'groups.ndjson'), [dict(id=p['id'], idx=1, **{'in': p['in'], 'outs': [p['out']]})])


def sig_of(prop, v):
    """Flatten one violation record (from RebalanceEval) into a signature dict."""
    s = dict(f=v['sig'].get('f'))
    for k in ('why', 'which', 'idx', 'of'):
        if k in v['sig']:
            s[k] = v['sig'][k]
    return s


def check(prop, tier, replay=None):
    t0 = time.time()
    with C.Scratch(prop) as scratch:
        violations, cov, drift, assumptions = collect(prop, tier, scratch, replay)
        return C.conclude(prop, tier, 'model_checking', cov, t0, violations, assumptions=assumptions, drift=drift)


def collect(prop, tier, scratch, replay=None):
    if True:
        inputs = None
        if replay:
            inputs = [json.load(open(replay))['input']]
        r = run_pipeline(tier, scratch, inputs=inputs)
        violations = []
        for v in r['viol']:
            if v['prop'] != prop:
                continue
            o = r['obs'][v['idx'] - 1]
            violations.append(dict(sig=sig_of(prop, v),
                                   replay=dict(property=prop, input=r['inputs'][o['id']], observed=o['out'], violation=v['sig']),
                                   text='input %s: %s' % (o['id'], json.dumps(v['sig'], sort_keys=True))))
        st = r['stats']
        nontriv = st.get('nontrivial', {}).get(prop, 0)
        samples = []
        for o in r['obs'][:2]:
            samples.append(dict(input=r['inputs'][o['id']], observed_outcome=o['out']))
        cov = dict(
            states=r['tlc']['distinct'], transitions=r['tlc']['generated'],
            traces_validated_against_impl=len(r['obs']) - len(r['drift']),
            samples=samples,
            evaluations=len(r['obs']), distinct_nontrivial=nontriv,
            rule='one evaluation = one run of the real Coordinator cycle on one input vector (grid + seeded sample), '
                 '%d repetitions per vector for map order / random picks; non-trivial for %s as counted by TLC '
                 '(RebalanceEval.NonTrivial): the vector exercises the antecedent of the property' % (r['reps'], prop),
            inputs=len(r['inputs']), model_outcomes=r['outcomes_model'], observed_distinct_outcomes=r['outcomes_seen'],
            model_inputs_violating_on_model={p: len(s) for p, s in r['model_viol'].items()},
            model_constants=r['consts'], exhaustive=False,
            explanation='TLC explored every behaviour of spec/Rebalance.tla for every input (states/transitions), every observed '
                        'outcome of the real coordinator was checked for membership in the model outcome set of its input, and '
                        'TLC evaluated the formulas of RebalanceProps on every observed (input, outcome) pair',
            wall_parts=r['times'])
        drift = ['input %s: observed outcome not among the %d outcomes of the model: %s' % (
            d['id'], d['model_outcomes'], json.dumps(d['observed'], sort_keys=True)) for d in r['drift']]
        return violations, cov, drift, ['scripted shards answer as sidecars do (consistent reports)',
                                        'MaxHead in {0,10}: float thresholds equal the integer ones of the spec']
