"""C17: discovered target sets follow updates and reloads (spec/Discovery.tla, MCDiscovery.tla,
DiscoveryEval.tla; harness `kvh discovery`)."""
import json, os, time
from . import common as C


def bfs_cfg(maxlen):
    return '''CONSTANTS
  Jobs = {"ja", "jb"}
  MaxLen = %d
  OutFile = "unused"
  Sample = 0
SPECIFICATION Spec
VIEW View
INVARIANTS FollowsLatest ReloadRemoves
PROPERTIES ReloadKeeps
CHECK_DEADLOCK FALSE
''' % maxlen


def sim_cfg(maxlen):
    return '''CONSTANTS
  Jobs = {"ja", "Ja", "jb"}
  MaxLen = %d
  OutFile = "beh.ndjson"
  Sample = 2
SPECIFICATION Spec
INVARIANT Export
CHECK_DEADLOCK FALSE
''' % maxlen


def many_jobs_behaviours():
    """Behaviours of Discovery.tla with more than ten jobs, written in the order an administrator writes them (not
    sorted): the simulated behaviours use three jobs; the number of jobs is a dimension of its own."""
    names = ['node', 'kubelet', 'cadvisor', 'apiserver', 'etcd', 'coredns', 'ingress', 'blackbox', 'mysql', 'redis', 'kafka', 'zookeeper', 'app']
    grp = lambda i: [dict(bad=False, members=[dict(id=1 + i % 4, drop=False)])]
    send = lambda js: dict(a='Send', jobs=[], edited=[], upd=[dict(job=j, groups=grp(names.index(j))) for j in js])
    reload_ = lambda js, ed=(): dict(a='Reload', jobs=list(js), edited=list(ed), upd=[])
    consume = dict(a='Consume', jobs=[], edited=[], upd=[])
    out = []
    for n in (11, 13):
        js = names[:n]
        out.append(dict(steps=[reload_(js), send(js), consume, reload_(js), reload_(js, js[:2]), reload_(js[1:]), send(js[1:]), consume, reload_(js[1:])]))
        out.append(dict(steps=[reload_(js), send(js[:5]), send(js[5:]), consume, consume, reload_(list(reversed(js))), reload_(js[:n - 1])]))
    return out


def check(prop, tier, replay=None):
    t0 = time.time()
    with C.Scratch(prop) as scratch:
        kvh = C.build_harness(scratch)
        sd = C.stage_specs(scratch)
        mc = C.tlc(sd, 'MCDiscovery', 'bfs.cfg', cfg_text=bfs_cfg(4 if tier == 'quick' else 5), timeout=3000, heap='12g')
        C.require_ok(mc, 'MCDiscovery exhaustive')
        beh = os.path.join(sd, 'beh.ndjson')
        open(beh, 'w').close()
        if replay:
            C.write_ndjson(beh, [dict(steps=json.load(open(replay))['steps'])])
        else:
            nsim, depth = (150, 10) if tier == 'quick' else (1500, 16)
            g = C.tlc(sd, 'MCDiscovery', 'sim.cfg', cfg_text=sim_cfg(depth), workers=1, simulate='num=%d' % nsim, depth=depth + 1, timeout=3000)
            C.require_ok(g, 'MCDiscovery generation')
            C.write_ndjson(beh, C.read_ndjson(beh) + many_jobs_behaviours())
        o1, o2 = os.path.join(sd, 'obs1.ndjson'), os.path.join(sd, 'obs2.ndjson')
        C.run_sharded(kvh, 'discovery', beh, o1)
        # concurrent part: the same behaviours with reader goroutines hammering the getters
        crash = None
        try:
            C.run_sharded(kvh, 'discovery', beh, o2, extra=['-readers', '4'], nproc=4)
        except C.Inconclusive as e:
            # the Go runtime aborts the process on an unsynchronised map access: with readers running next to
            # updates that is what handing out (or writing to) shared maps produces - a result, not a machinery failure
            if 'concurrent map' not in str(e):
                raise
            crash = str(e)[-1500:]
            open(o2, 'w').close()
        recs = C.read_ndjson(o1) + C.read_ndjson(o2)
        for i, r in enumerate(recs):
            r['id'] = i + 1
        C.write_ndjson(os.path.join(sd, 'obs.ndjson'), recs)
        ev = C.tlc(sd, 'DiscoveryEval', 'eval.cfg', cfg_text='', workers=1, timeout=3000, heap='12g')
        C.require_ok(ev, 'DiscoveryEval')
        viol = C.read_ndjson(os.path.join(sd, 'viol.ndjson'))
        stats = (C.read_ndjson(os.path.join(sd, 'evalstats.ndjson')) or [{}])[0]
        violations = []
        for v in viol:
            r = recs[v['id'] - 1]
            steps = [{k: s.get(k, []) for k in ('a', 'upd', 'jobs', 'edited')} for s in r['steps']]
            violations.append(dict(sig=dict(a=v['a'], fields=sorted(v['fields'])),
                                   replay=dict(property=prop, steps=steps, deviation=v, observed=(r['steps'][v['k'] - 1].get('post') if v['a'] not in ('read', 'snapshot', 'api-read') else v.get('read'))),
                                   text='behaviour %d step %s (%s): %s' % (v['id'], v['k'], v['a'], sorted(v['fields']))))
        if crash:
            violations.append(dict(sig=dict(a='read', fields=['fatal-concurrent-map-access']),
                                   replay=dict(property=prop, steps=[], deviation='the process aborted with a concurrent map access while readers ran next to updates', stderr=crash),
                                   text='readers running next to updates/reloads crash the process: concurrent map access'))
        # a reload and the consumption of an update at the same time (two atomic actions of Discovery.tla: with a reload that keeps every
        # job both orders end in the table of the update)
        race = None
        if not replay:
            rf = os.path.join(sd, 'race.ndjson')
            C.run([kvh, 'discrace', '-out', rf, '-rounds', '2000' if tier == 'quick' else '4500'], timeout=1200)
            race = (C.read_ndjson(rf) or [{}])[0]
            if race.get('lost') or race.get('stale'):
                violations.append(dict(sig=dict(a='reload-next-to-consume', fields=['explorer-table']),
                                       replay=dict(property=prop, steps=[], deviation=race),
                                       text='a reload that keeps every job, running next to the consumption of an update, left the explorer with another table than the '
                                            'update\'s: %d looked-up targets of the update missing, %d of the previous update still there' % (race.get('lost', 0), race.get('stale', 0))))
        acts = {}
        for r in recs:
            for s in r['steps']:
                acts[s['a']] = acts.get(s['a'], 0) + 1
        nontriv = sum(1 for r in recs if len(set(s['a'] for s in r['steps'])) == 3)
        cov = dict(states=mc['distinct'], transitions=mc['generated'],
                   traces_validated_against_impl=len(recs) - len(set(v['id'] for v in viol)),
                   samples=[dict(steps=[{k: s.get(k, []) for k in ('a', 'upd', 'jobs', 'edited')} for s in recs[0]['steps'][:4]], observed_after_step_4=recs[0]['steps'][min(3, len(recs[0]['steps']) - 1)].get('post'))] if recs else [],
                   evaluations=len(recs), distinct_nontrivial=nontriv, concurrent_reads_checked=stats.get('reads', 0),
                   rule='one evaluation = one TLC-generated behaviour (updates full or partial, with dropped targets, failing groups and duplicates; explorer '
                        'consumption; reloads adding/removing/keeping jobs) replayed on the real TargetsDiscovery/Explore/ConfigManager, once sequentially (state '
                        'after every step, all earlier snapshots re-compared at the end) and once with 4 reader goroutines (every read must equal the specification '
                        'value in a state of its window); non-trivial: contains updates, consumption and reloads',
                   spec_actions_covered_by_impl_traces=acts, exhaustive=False, reload_next_to_consume=race,
                   explanation='exhaustive BFS of MCDiscovery (2 jobs, every update shape, bounded depth) checks the C17 invariants on the model; simulated behaviours over 3 '
                               'jobs are replayed and validated by TLC (DiscoveryEval) against the specification operators')
        return C.conclude(prop, tier, 'model_checking', cov, t0, violations,
                          assumptions=['the Prometheus discovery manager is replaced by the harness writing to the same channel',
                                       'the concurrent part finds a non-atomic update only if a reader hits the window (many reads, not all schedules)'])
