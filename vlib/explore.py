"""C20: probe scheduling of the explorer (spec/Explore.tla, MCExplore.tla, ExploreProps.tla,
ExploreEval.tla; harness `kvh explore`)."""
import json, os, time
from . import common as C

MODEL_CONSTANTS = dict(ProbeChecksIdentity='TRUE', FailureMarksDown='TRUE', SendUnderLock='FALSE')
PINNED_CONSTANTS = dict(ProbeChecksIdentity='FALSE', FailureMarksDown='FALSE')


def cfg(consts, targets, maxfails, maxobjs, maxlen, mode):
    head = '''CONSTANTS
  Targets = %s
  Workers = {1, 2}
  MaxFails = %d
  MaxObjs = %d
  ProbeChecksIdentity = %s
  FailureMarksDown = %s
  MaxLen = %d
  OutFile = "beh.ndjson"
''' % (targets, maxfails, maxobjs, consts['ProbeChecksIdentity'], consts['FailureMarksDown'], maxlen)
    if mode == 'bfs':
        return head + '''  Record = TRUE
SPECIFICATION Spec
VIEW View
CONSTRAINT Bound
INVARIANTS AtMostOneInFlight NoProbeAfterRemoval NoProbeBeforeGet EstimateIsSuccessfulProbe ExportScenario
PROPERTIES NoProbeAfterSuccess
CHECK_DEADLOCK FALSE
'''
    if mode == 'live':
        return head + '''  Record = FALSE
SPECIFICATION Fair
PROPERTIES FailedIsRetried
CHECK_DEADLOCK FALSE
'''
    return head + '''  Record = TRUE
SPECIFICATION GenSpec
INVARIANT Export
CHECK_DEADLOCK FALSE
'''


def check(prop, tier, replay=None):
    t0 = time.time()
    with C.Scratch(prop) as scratch:
        kvh = C.build_harness(scratch)
        sd = C.stage_specs(scratch)
        # (1) every interleaving of lookups, updates, workers, completions and timers in the bounded model
        beh = os.path.join(sd, 'beh.ndjson')
        open(beh, 'w').close()
        mc = C.tlc(sd, 'MCExplore', 'bfs.cfg', cfg_text=cfg(MODEL_CONSTANTS, '{1, 2}', 2, 3, 11 if tier == 'quick' else 14, 'bfs'), workers=1, timeout=3000, heap='12g')
        C.require_ok(mc, 'MCExplore safety')
        import random
        scen = C.read_ndjson(beh)
        random.Random(C.seed() * 7 + 1).shuffle(scen)
        scen = scen[:260 if tier == 'quick' else 3000]
        live = C.tlc(sd, 'MCExplore', 'live.cfg', cfg_text=cfg(MODEL_CONSTANTS, '{1}' if tier == 'quick' else '{1, 2}', 2, 2, 0, 'live'), timeout=3000, heap='12g')
        C.require_ok(live, 'MCExplore liveness')
        # (2) schedules
        open(beh, 'w').close()
        if replay:
            C.write_ndjson(beh, [dict(steps=json.load(open(replay))['schedule'])])
        else:
            for targets, nsim, depth in ([('{1, 2}', 150, 16), ('{1}', 50, 16)] if tier == 'quick' else [('{1, 2}', 2500, 20), ('{1}', 600, 20), ('{1, 2, 3}', 1200, 18)]):
                g = C.tlc(sd, 'MCExplore', 'sim.cfg', cfg_text=cfg(MODEL_CONSTANTS, targets, 3, 4, depth, 'sim'), workers=1,
                          simulate='num=%d' % nsim, depth=depth + 1, timeout=3000)
                C.require_ok(g, 'MCExplore generation')
            seen, uniq = set(), []
            for b in scen + C.read_ndjson(beh):
                k = json.dumps(b, sort_keys=True)
                if k not in seen:
                    seen.add(k)
                    uniq.append(b)
            if tier == 'quick':
                uniq = uniq[:360]
            C.write_ndjson(beh, uniq)
        scheds = C.read_ndjson(beh)
        obs_f = os.path.join(sd, 'obs.ndjson')
        C.run_sharded(kvh, 'explore', beh, obs_f, nproc=12)
        recs = C.read_ndjson(obs_f)
        # run_sharded deals lines round-robin: recover which schedule each history belongs to
        nproc = max(1, min(12, len(scheds)))
        order = [i for p in range(nproc) for i in range(p, len(scheds), nproc)]
        for i, r in enumerate(recs):
            r['id'] = i + 1
            r['schedule'] = scheds[order[i]]['steps'] if i < len(order) else []
        C.write_ndjson(obs_f, recs)
        ev = C.tlc(sd, 'ExploreEval', 'eval.cfg', cfg_text='', workers=1, timeout=3000, heap='12g')
        C.require_ok(ev, 'ExploreEval')
        viol = C.read_ndjson(os.path.join(sd, 'viol.ndjson'))
        stats = (C.read_ndjson(os.path.join(sd, 'evalstats.ndjson')) or [{}])[0]
        violations = []
        for v in viol:
            r = recs[v['id'] - 1]
            violations.append(dict(sig=dict(f=v['sig']['f']),
                                   replay=dict(property=prop, schedule=r['schedule'], events=r['events'], violation=v['sig']),
                                   text='history %d: %s' % (v['id'], json.dumps(v['sig'], sort_keys=True))))
        # the lock / queue protocol: ExploreLock.tla (deadlock freedom and termination under fairness), and the flood run
        el = C.tlc(sd, 'ExploreLock', 'el.cfg', workers=2, timeout=1800, deadlock=True, cfg_text='''CONSTANTS
  Workers = {1, 2}
  QueueCap = %d
  NLookups = %d
  NRetries = 2
  SendUnderLock = %s
SPECIFICATION Fair
INVARIANT TypeOK
PROPERTY EventuallyDone
CHECK_DEADLOCK TRUE
''' % ((2, 6, MODEL_CONSTANTS['SendUnderLock']) if tier == 'quick' else (3, 9, MODEL_CONSTANTS['SendUnderLock'])))
        C.require_ok(el, 'ExploreLock')
        flood_f = os.path.join(sd, 'flood.ndjson')
        floods = []
        if not replay:
            for wk in ([2] if tier == 'quick' else [1, 2, 8]):
                part = flood_f + '.%d' % wk
                C.run([kvh, 'explore-flood', '-out', part, '-workers', str(wk), '-extra', str(40 if tier == 'quick' else 300)], timeout=600)
                floods += C.read_ndjson(part)
        C.write_ndjson(flood_f, floods)
        if floods:
            evf = C.tlc(sd, 'ExploreLockEval', 'evalf.cfg', cfg_text='', workers=1, timeout=600)
            C.require_ok(evf, 'ExploreLockEval')
            for v in C.read_ndjson(os.path.join(sd, 'floodviol.ndjson')):
                o = floods[v['idx'] - 1]
                violations.append(dict(sig=dict(f=v['which']), replay=dict(property=prop, flood=o, violation=v['which']),
                                       text='flood of %d first lookups (%d workers): %s: %s' % (o['n'], o['workers'], v['which'], json.dumps(o, sort_keys=True))))
        # the estimate a target is first assigned with: the cycle formula C20 of RebalanceProps on real coordinator cycles
        # (the discovery hands out new target objects in every round, as the real one does)
        from . import cycle as CY
        cyc = dict(evaluations=0, nontrivial=0)
        if not replay or 'input' in json.load(open(replay)):
            sub = os.path.join(scratch, 'cyc')
            os.makedirs(sub, exist_ok=True)
            r = CY.run_pipeline(tier, sub, sizes=((100, 900, 3) if tier == 'quick' else (400, 6000, 4)),
                                inputs=([json.load(open(replay))['input']] if replay else None))
            cyc = dict(evaluations=len(r['obs']), nontrivial=r['stats'].get('nontrivial', {}).get('C20', 0))
            for v in r['viol']:
                if v['prop'] == 'C20':
                    o = r['obs'][v['idx'] - 1]
                    violations.append(dict(sig=dict(f=v['sig'].get('f')), replay=dict(property=prop, input=r['inputs'][o['id']], observed=o['out'], violation=v['sig']),
                                           text='cycle input %s: %s' % (o['id'], json.dumps(v['sig'], sort_keys=True))))
        notes = sum(len(r.get('notes') or []) for r in recs)
        kinds = {}
        for r in recs:
            for e in r['events']:
                kinds[e['ev']] = kinds.get(e['ev'], 0) + 1
        cov = dict(states=mc['distinct'] + live['distinct'], transitions=mc['generated'] + live['generated'],
                   traces_validated_against_impl=len(recs) - len(set(v['id'] for v in viol)),
                   samples=[dict(schedule=r['schedule'], recorded_events=[{k: e[k] for k in ('seq', 'ev', 't', 'ok', 'health', 'series', 'total', 'set')} for e in r['events']]) for r in recs[:1]],
                   evaluations=len(recs), distinct_nontrivial=stats.get('nontrivial', 0), events_recorded=kinds,
                   schedule_steps_the_code_did_not_follow=notes, flood_runs=floods, lock_model_states=el['distinct'], first_assignment_cycles=cyc,
                   rule='one evaluation = one TLC-simulated schedule (lookups, discovery updates that remove / keep / re-add targets, probe completions with '
                        'chosen result and order, retry timers) executed on the real Explore with 2 workers, blocking HTTP targets and a %d ms retry interval; '
                        'non-trivial: the history contains a failed probe (counted by TLC)' % 30,
                   exhaustive=False, model_constants=MODEL_CONSTANTS,
                   explanation='TLC checks the safety invariants of Explore.tla over every interleaving of the bounded model and FailedIsRetried under fairness; the '
                               'history formulas of ExploreProps.tla are evaluated by TLC (ExploreEval) on the event histories recorded from the real explorer')
        return C.conclude(prop, tier, 'model_checking', cov, t0, violations,
                          assumptions=['a probe request arriving within 10 ms after a discovery update counts as started before it',
                                       'retry judged only when the history extends at least 10 retry intervals beyond the failure (the harness waits up to 1.5 s for due retries)'])
