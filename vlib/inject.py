"""C11: the configuration the sidecar generates (spec/Inject.tla, MCInject.tla, InjectEval.tla;
harness `kvh inject`)."""
import json, os, random, time
from . import common as C

MODEL_CONSTANTS = dict(Mode='verbatim')
PINNED_CONSTANTS = dict(Mode='ordered-text')


def cfg(invs):
    return '''CONSTANTS
  Mode = "%s"
  OutFile = "cases.ndjson"
SPECIFICATION Spec
INVARIANTS %s
CHECK_DEADLOCK FALSE
''' % (MODEL_CONSTANTS['Mode'], ' '.join(invs))


def check(prop, tier, replay=None):
    t0 = time.time()
    with C.Scratch(prop) as scratch:
        kvh = C.build_harness(scratch)
        sd = C.stage_specs(scratch)
        cases_f = os.path.join(sd, 'cases.ndjson')
        open(cases_f, 'w').close()
        mc = C.tlc(sd, 'MCInject', 'mc.cfg', workers=1, cfg_text=cfg(['Export', 'Inv_Secrets', 'Inv_NoJobSecret']), timeout=3000, heap='12g')
        C.require_ok(mc, 'MCInject')
        cases = C.read_ndjson(cases_f)
        if replay:
            rp = json.load(open(replay))
            cases = [c for c in cases if c['case'] == rp['case']] or cases[:1]
        elif tier == 'quick':
            random.Random(C.seed() * 2654435761 % 1000003).shuffle(cases)
            cases = cases[:2500]
        for i, c in enumerate(cases):
            c['n'] = i
        C.write_ndjson(cases_f, [dict(n=c['n'], case=c['case']) for c in cases])
        obs_f = os.path.join(sd, 'obs.ndjson')
        C.run_sharded(kvh, 'inject', cases_f, obs_f)
        obs = {o['n']: o['obs'] for o in C.read_ndjson(obs_f)}
        C.write_ndjson(obs_f, [dict(n=c['n'], obs=obs[c['n']]) for c in cases])
        drift = []
        for c in cases:
            o = obs[c['n']]
            model = [(s['sec'], s['key'], s['val']) for s in c['generated']]
            real = [(s['sec'], s['key'], s['val']) for s in o['slots']]
            if model != real:
                drift.append('case %s: Inject.tla predicts secret slots %s, the generated file has %s %s' % (json.dumps(c['case']), model, real, o.get('err', '')))
        ev = C.tlc(sd, 'InjectEval', 'eval.cfg', cfg_text='', workers=1, timeout=3000, heap='12g')
        C.require_ok(ev, 'InjectEval')
        viol = C.read_ndjson(os.path.join(sd, 'viol.ndjson'))
        violations = []
        for v in viol:
            c = cases[v['n']]
            o = obs[v['n']]
            detail = dict(jobProblems=o['jobProblems'], leak=o['jobSecretLeak'], sections=o['sectionsDiffer'], err=o.get('err', ''))
            violations.append(dict(sig=dict(which=v['which'], sections=sorted(o['sectionsDiffer']) if v['which'] == 'non-scrape-section-not-preserved' else None),
                                   replay=dict(property=prop, case=c['case'], which=v['which'], observed=o),
                                   text='%s: case %s: %s' % (v['which'], json.dumps(c['case']), json.dumps(detail)[:400])))
        cov = dict(states=mc['distinct'], transitions=mc['generated'], traces_validated_against_impl=len(cases) - len(drift),
                   samples=[dict(case=c['case'], model_slots=c['generated'], observed=obs[c['n']]) for c in cases[:2]],
                   evaluations=len(cases), distinct_nontrivial=sum(1 for c in cases if len(c['slots']) >= 2),
                   rule='one evaluation = one configuration shape (alertmanager with/without basic auth; 1-2 jobs with none/basic/bearer/authorization/oauth2, TLS settings, static/file/kubernetes '
                        'discovery, params, limits, honor flags, relabel and metric relabel rules; 0-2 remote write and 0-2 remote read entries with none/basic/bearer/authorization) rendered to YAML, '
                        'run through the real ConfigManager + Injector in both orders (config first / targets first), with and without the self-monitoring job, with an assignment that has a job without '
                        'targets and targets of an unknown job; the written file is loaded with config.Load and compared field-wise; non-trivial: at least two secret slots',
                   exhaustive=(tier == 'thorough'), model_constants=MODEL_CONSTANTS,
                   explanation='TLC enumerates 10 080 shapes and the secret-slot values Inject.tla predicts for the generated file and checks SecretsPreserved / NoJobSecretInFile on the model; the real file must '
                               'carry exactly the predicted slot values (conformance) and TLC (InjectEval) evaluates the C11 formulas on the comparison of generated and original configuration')
        # the generated file over histories of assignments, rejected updates and restarts: the replay of Sidecar.tla
        # behaviours on the real sidecar, judged in the field "generated-config" (gen of Sidecar.tla)
        if not replay or 'steps' in json.load(open(replay)):
            from . import sidecar as SC
            sub = os.path.join(scratch, 'sidecar')
            os.makedirs(sub, exist_ok=True)
            v2, cov2, d2, a2 = SC.collect(prop, tier, sub, replay)
            if replay:
                return C.conclude(prop, tier, 'model_checking', cov2, t0, v2, assumptions=a2, drift=d2)
            violations += v2
            cov['sidecar_histories'] = dict(evaluations=cov2['evaluations'], steps_replayed=cov2.get('steps_replayed'))
            cov['states'] += cov2['states']
            cov['transitions'] += cov2['transitions']
        return C.conclude(prop, tier, 'model_checking', cov, t0, violations,
                          assumptions=['YAML surface syntax beyond "loads and is field-wise equal" is not compared'], drift=drift)
