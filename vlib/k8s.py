"""C18: Kubernetes shard manager (spec/K8sShards.tla, K8sProps.tla, MCK8sShards.tla, K8sEval.tla;
harness `kvh k8s`)."""
import json, os, time
from . import common as C


def cfg(maxrep, maxtpl, maxpods):
    return '''CONSTANTS
  MaxRep = %d
  MaxTpl = %d
  MaxPods = %d
  OutFile = "cases.ndjson"
SPECIFICATION Spec
INVARIANTS Export Inv_C18
CHECK_DEADLOCK FALSE
''' % (maxrep, maxtpl, maxpods)


def norm(x):
    return json.dumps(x, sort_keys=True)


def same(o):
    m, r, k = o['out'], o['obs'], o['case']['kind']
    if r.get('err'):
        return False
    if k == 'list':
        return m['shards'] == (r.get('shards') or [])
    if k == 'scale':
        return m['replicas'] == r['replicas'] and sorted(map(norm, m['pvcs'])) == sorted(map(norm, r['pvcs'])) and m['writes'] == r['writes']
    if k == 'replicaseq':
        return list(m['coordinated']) == list(r.get('coordinated') or [])
    return m['managers'] == r['managers']


def check(prop, tier, replay=None):
    t0 = time.time()
    with C.Scratch(prop) as scratch:
        kvh = C.build_harness(scratch)
        sd = C.stage_specs(scratch)
        cases_f = os.path.join(sd, 'cases.ndjson')
        open(cases_f, 'w').close()
        bounds = (4, 2, 3) if tier == 'quick' else (6, 3, 5)
        mc = C.tlc(sd, 'MCK8sShards', 'mc.cfg', workers=1, cfg_text=cfg(*bounds), timeout=3000, heap='12g')
        C.require_ok(mc, 'MCK8sShards')
        cases = C.read_ndjson(cases_f)
        if replay:
            cases = [json.load(open(replay))['case_record']]
        C.write_ndjson(cases_f, cases)
        obs_f = os.path.join(sd, 'obs.ndjson')
        C.run_sharded(kvh, 'k8s', cases_f, obs_f)
        obs = C.read_ndjson(obs_f)
        drift = ['case %s: K8sShards.tla predicts %s, observed %s' % (norm(o['case']), norm(o['out']), norm(o['obs'])) for o in obs if not same(o)]
        ev = C.tlc(sd, 'K8sEval', 'eval.cfg', cfg_text='', workers=1, timeout=3000, heap='12g')
        C.require_ok(ev, 'K8sEval')
        viol = C.read_ndjson(os.path.join(sd, 'viol.ndjson'))
        stats = (C.read_ndjson(os.path.join(sd, 'evalstats.ndjson')) or [{}])[0]
        violations = []
        for v in viol:
            o = obs[v['idx'] - 1]
            violations.append(dict(sig=dict(which=v['which'], kind=o['case']['kind']),
                                   replay=dict(property=prop, case_record=dict(case=o['case'], out=o['out']), observed=o['obs'], which=v['which']),
                                   text='%s: case %s observed %s' % (v['which'], norm(o['case']), norm(o['obs']))))
        # an error reported by the manager where none is expected is a violation of the same property only if
        # it left the objects wrong, which the formulas see; errors alone are reported as drift
        cov = dict(states=mc['distinct'], transitions=mc['generated'], traces_validated_against_impl=len(obs) - len(drift),
                   samples=[dict(case=o['case'], model=o['out'], observed=o['obs']) for o in obs[:1] + obs[len(obs) // 2:len(obs) // 2 + 1] + obs[-1:]],
                   evaluations=len(obs), distinct_nontrivial=stats.get('nontrivial', 0),
                   rule='one evaluation = one case (scale: old count incl. unset x new count x templates x deletion flag x claim sets incl. a missing and a foreign '
                        'claim; list: every permutation of <= %d pods x address patterns, and lists with gaps; replicas: pairs of StatefulSet status triples) '
                        'executed on kubernetes.NewReplicasManager over a client-go fake clientset; non-trivial: count changes / more than one pod / status cases' % bounds[2],
                   exhaustive=True, bounds=dict(max_replicas=bounds[0], max_templates=bounds[1], max_pods=bounds[2]),
                   explanation='TLC enumerates every case of the bounded space and the outcome K8sShards.tla predicts, and checks C18 on the prediction; the real manager '
                               'must produce exactly the predicted objects / lists (conformance) and TLC (K8sEval) evaluates C18 on the observed objects')
        return C.conclude(prop, tier, 'model_checking', cov, t0, violations,
                          assumptions=['client-go fake clientset stands in for the API server', 'readiness of a shard = its pod has an address (as the code defines it)'],
                          drift=drift)
