"""Closed loop: C03 (convergence, stability, scale-up when stuck), C06 (recovery after faults), and the
history form of C05 (spec/Kvass.tla, KvassTrace.tla, KvassProps.tla, KvassEval.tla; harness `kvh loop`)."""
import json, os, random, time
from . import common as C
from . import cycle as CY

PRESETS = [
    dict(maxHead=10, maxProc=20, minShard=1, maxShard=4, maxIdle=1, noAlleviate=False),
    dict(maxHead=0, maxProc=20, minShard=1, maxShard=4, maxIdle=0, noAlleviate=False),
    dict(maxHead=10, maxProc=30, minShard=2, maxShard=4, maxIdle=1, noAlleviate=False),
    dict(maxHead=10, maxProc=20, minShard=1, maxShard=4, maxIdle=0, noAlleviate=False),
    # the shards are a fixed list (static shard manager): scale requests are accepted and change nothing
    dict(maxHead=10, maxProc=20, minShard=1, maxShard=4, maxIdle=1, noAlleviate=False, static=True),
]
DYNAMIC = [p for p in PRESETS if not p.get('static')]


def opts_tla(opts):
    return '[maxHead |-> %d, maxProc |-> %d, minShard |-> %d, maxShard |-> %d, maxIdle |-> %d, noAlleviate |-> %s%s]' % (
        opts['maxHead'], opts['maxProc'], opts['minShard'], opts['maxShard'], opts['maxIdle'], 'TRUE' if opts['noAlleviate'] else 'FALSE',
        ', static |-> TRUE' if opts.get('static') else '')
MAXN = 4
NT = 3
QUIET_ROUNDS = 10
MODES = ['notready', 'statusfail', 'rtfail', 'pushfail', 'rt2fail', 'stale', 'pushok']


def step(a, **k):
    d = dict(a=a, i=0, t=0, series=0, total=0, on=False, modes=[], postFail=[], rej=[], failScale=0, place=[])
    d.update(k)
    return d


def gen_size(rnd, opts, allow_big=True):
    series = rnd.choice([1, 2, 3, 4, 4, 6, 8])
    total = series + rnd.choice([0, 0, 1, 4])
    if allow_big and rnd.random() < 0.08:
        if opts['maxHead'] and rnd.random() < 0.5:
            series = opts['maxHead'] + 2
            total = max(total, series)
        else:
            total = opts['maxProc'] + 5
    return dict(series=series, total=total)


def gen_transfer_schedule(rnd, idn, faults):
    """Directed family: a shard becomes overloaded by a growing target, a second shard is requested, a relief
    transfer starts - and (with faults) its destination loses the target: update lost, pod recreated empty,
    StatefulSet shrunk from outside, or the source restarts.  Then the quiet tail."""
    opts = dict(maxHead=10, maxProc=20, minShard=1, maxShard=4, maxIdle=rnd.choice([0, 1]), noAlleviate=False)
    if opts not in PRESETS:
        opts = PRESETS[0] if opts['maxIdle'] == 1 else PRESETS[3]
    sizes = [dict(series=6, total=7), dict(series=3, total=3), dict(series=rnd.choice([1, 2]), total=2)]
    st = [step('add', t=1), step('probe', t=1), step('add', t=2), step('probe', t=2)]
    if rnd.random() < 0.5:
        st += [step('add', t=3), step('probe', t=3)]
    st.append(step('cycle'))
    st += [step('scrape', i=1)] * 3
    st.append(step('size', t=2, series=6, total=7))
    st += [step('scrape', i=1)] * 3
    st.append(step('probe', t=2))
    st.append(step('cycle'))                     # no room anywhere: a second shard is requested
    for _ in range(rnd.choice([0, 1])):
        st += [step('scrape', i=1), step('scrape', i=2)]
    c = step('cycle')                            # the relief transfer starts
    kind = rnd.choice(['lost', 'shrink', 'recreate', 'restart', 'none', 'rejlater']) if faults else 'none'
    if kind == 'lost':
        c['postFail'] = [False, True, False, False]
        if rnd.random() < 0.5:
            c['rej'] = list(c['postFail'])     # ... refused by the sidecar: its reload of Prometheus failed
    st.append(c)
    if kind in ('none', 'restart') and rnd.random() < 0.5:
        # the hand-over at its edge: the source has scraped three times, the destination twice, and the next cycle
        # runs while the destination's third scrape is under way (or right after the destination restarted)
        if rnd.random() < 0.5:
            # ... while the targets do not answer: attempts count, once each
            st += [step('alive', t=1, on=False), step('alive', t=2, on=False)]
        st += [step('scrape', i=1)] * 3 + [step('scrape', i=2)] * 2
        if kind == 'restart':
            st.append(step('restart', i=2))
            kind = 'none'
        cc = step('cycle', i=2)
        st += [cc, step('scrape', i=2, on=True)]
    if kind == 'rejlater':
        # while the move is under way the destination (and the source) are sent further updates that they refuse: a new
        # target appears and the reload of Prometheus fails on the shard that is to get it, once or twice
        st += [step('scrape', i=2), step('scrape', i=1)]
        t3 = 3
        st += [step('remove', t=t3)] if any(x['a'] == 'add' and x['t'] == t3 for x in st) else []
        st += [step('add', t=t3), step('probe', t=t3)]
        for _ in range(rnd.choice([1, 2])):
            cc = step('cycle')
            cc['postFail'] = [True, True, False, False]
            cc['rej'] = [True, True, False, False]
            st.append(cc)
            st += [step('scrape', i=2)] * rnd.choice([0, 1])
        kind = 'none'
    for _ in range(rnd.choice([0, 1, 2])):
        st += [step('scrape', i=1), step('scrape', i=2)]
    if kind == 'shrink':
        st.append(step('shrink'))
    elif kind == 'recreate':
        st.append(step('recreate', i=2))
    elif kind == 'restart':
        st.append(step('restart', i=rnd.choice([1, 2])))
    # ... and what the move meets afterwards: the moved target goes down for good, the overload disappears
    # again (no second relief transfer), or nothing
    after = rnd.choice(['none', 'none', 'none', 'down', 'down', 'down', 'sizeback', 'sizeback', 'sizeback', 'sizeback'])
    if after == 'down':
        st.append(step('alive', t=rnd.choice([1, 2, 2, 3]), on=False))
    elif after == 'sizeback':
        st.append(step('size', t=2, series=3, total=3))
        st += [step('scrape', i=1), step('scrape', i=2)]
    quiet_from = len(st) + 1
    for t in range(1, NT + 1):
        st.append(step('probe', t=t))
    for r in range(QUIET_ROUNDS):
        st.append(step('cycle'))
        for k in range(3):
            for i in range(1, MAXN + 1):
                st.append(step('scrape', i=i))
    return dict(id=idn, nsh0=1, nt=NT, opts=opts, sizes=sizes, steps=st, quietFrom=quiet_from, expectConverge=True)


def gen_placement_schedule(rnd, idn, faults):
    """Directed family: the run starts from an arbitrary placement - every shard was handed an arbitrary set of
    targets in arbitrary states (duplicates, pending transfers without partner, undiscovered targets) by somebody
    else (a coordinator that crashed half-way through a cycle, another instance) - then the quiet tail."""
    opts = rnd.choice(DYNAMIC)
    sizes = [gen_size(rnd, opts, allow_big=False) for _ in range(NT)]
    st = []
    for t in range(1, NT + 1):
        if rnd.random() < 0.85:
            st.append(step('add', t=t))
            if rnd.random() < 0.85:
                st.append(step('probe', t=t))
    nsh0 = rnd.choice([2, 2, 3])
    pls = []
    for i in range(1, nsh0 + 1):
        pl = [dict(t=t, state=rnd.choice(['', '', 'in_transfer'])) for t in range(1, NT + 1) if rnd.random() < 0.5]
        pls.append(pl)
    if rnd.random() < 0.4:
        # one target held by two shards, both copies marked in-transfer, no normal copy anywhere
        t = rnd.randint(1, NT)
        a, b = rnd.sample(range(nsh0), 2)
        for i in range(nsh0):
            pls[i] = [x for x in pls[i] if x['t'] != t] + ([dict(t=t, state='in_transfer')] if i in (a, b) else [])
    for i in range(1, nsh0 + 1):
        if pls[i - 1]:
            st.append(step('place', i=i, place=sorted(pls[i - 1], key=lambda x: x['t'])))
    for _ in range(rnd.choice([0, 1, 3])):
        for i in range(1, nsh0 + 1):
            st.append(step('scrape', i=i))
    if faults and rnd.random() < 0.4:
        # ... and the first cycle after it is disturbed as well
        c = step('cycle')
        c['postFail'] = [False] * MAXN
        c['postFail'][rnd.randrange(nsh0)] = True
        if rnd.random() < 0.5:
            c['rej'] = list(c['postFail'])
        st.append(c)
        for i in range(1, nsh0 + 1):
            st.append(step('scrape', i=i))
    quiet_from = len(st) + 1
    for t in range(1, NT + 1):
        st.append(step('probe', t=t))
    for r in range(QUIET_ROUNDS):
        st.append(step('cycle'))
        for k in range(3):
            for i in range(1, MAXN + 1):
                st.append(step('scrape', i=i))
    return dict(id=idn, nsh0=nsh0, nt=NT, opts=opts, sizes=sizes, steps=st, quietFrom=quiet_from, expectConverge=True)


def gen_full_shards_schedule(rnd, idn, faults):
    """Directed family: every shard holds one target that fills it; then the target of one shard leaves
    discovery, so that an idle (not yet expired) shard sits behind / between full ones."""
    opts = PRESETS[0] if rnd.random() < 0.7 else PRESETS[2]
    sizes = [dict(series=6, total=7), dict(series=6, total=6), dict(series=rnd.choice([6, 7]), total=8)]
    st = []
    for t in (1, 2, 3):
        st += [step('add', t=t), step('probe', t=t)]
    for r in range(4):
        st.append(step('cycle'))
        for i in range(1, MAXN + 1):
            st += [step('scrape', i=i)] * 3
    st.append(step('remove', t=rnd.choice([1, 2, 3])))
    if rnd.random() < 0.3:
        st.append(step('tick'))
    quiet_from = len(st) + 1
    for t in range(1, NT + 1):
        st.append(step('probe', t=t))
    for r in range(QUIET_ROUNDS):
        st.append(step('cycle'))
        for k in range(3):
            for i in range(1, MAXN + 1):
                st.append(step('scrape', i=i))
    return dict(id=idn, nsh0=rnd.choice([1, 2]), nt=NT, opts=opts, sizes=sizes, steps=st, quietFrom=quiet_from, expectConverge=True)


def gen_flap_schedule(rnd, idn):
    """Directed family (faults): a target fails some scrapes on its shard, a cycle sees that, the target recovers - and
    then the shard that held it is lost (pod recreated empty, or the StatefulSet shrunk).  The explorer's result for the
    target is still the healthy one: it has to be placed again."""
    opts = rnd.choice(DYNAMIC)
    sizes = [dict(series=rnd.choice([2, 3]), total=rnd.choice([3, 4])) for _ in range(NT)]
    st = []
    for t in range(1, NT + 1):
        st += [step('add', t=t), step('probe', t=t)]
    nsh0 = rnd.choice([1, 2])
    st.append(step('cycle'))
    for i in range(1, nsh0 + 1):
        st += [step('scrape', i=i)] * 3
    down = rnd.randint(1, NT)
    st.append(step('alive', t=down, on=False))
    for i in range(1, nsh0 + 1):
        st += [step('scrape', i=i)] * rnd.choice([1, 2])
    st.append(step('cycle'))                      # the failure is seen (and published)
    st.append(step('alive', t=down, on=True))
    k = rnd.random()
    if k < 0.5:
        st.append(step('recreate', i=rnd.randint(1, max(nsh0, opts['minShard']))))
    elif k < 0.8:
        st.append(step('shrink'))
    else:
        st.append(step('recreate', i=1))
    quiet_from = len(st) + 1
    for t in range(1, NT + 1):
        st.append(step('probe', t=t))
    for r in range(QUIET_ROUNDS):
        st.append(step('cycle'))
        for k2 in range(3):
            for i in range(1, MAXN + 1):
                st.append(step('scrape', i=i))
    return dict(id=idn, nsh0=nsh0, nt=NT, opts=opts, sizes=sizes, steps=st, quietFrom=quiet_from, expectConverge=True)


def gen_schedule(rnd, idn, faults, handover=False):
    x = rnd.random()
    if faults and not handover and x > 0.88:
        return gen_flap_schedule(rnd, idn)
    if handover and x < 0.75:
        # the hand-over property: most runs are moves, and most of the moves meet no other fault
        return gen_transfer_schedule(rnd, idn, faults and rnd.random() < 0.4)
    if x < 0.3:
        return gen_transfer_schedule(rnd, idn, faults)
    if x < 0.45:
        return gen_full_shards_schedule(rnd, idn, faults)
    if x < 0.62:
        return gen_placement_schedule(rnd, idn, faults)
    opts = rnd.choice(PRESETS)
    static = bool(opts.get('static'))
    sizes = [gen_size(rnd, opts) for _ in range(NT)] if not static else [dict(series=rnd.choice([1, 2, 3]), total=rnd.choice([3, 4])) for _ in range(NT)]
    st = []
    disc = set()
    for t in range(1, NT + 1):
        if rnd.random() < 0.8:
            st.append(step('add', t=t))
            disc.add(t)
            if rnd.random() < 0.9:
                st.append(step('probe', t=t))
    rounds = rnd.randint(3, 7)
    for r in range(rounds):
        c = step('cycle')
        if faults and rnd.random() < 0.5:
            kind = rnd.choice(['mode', 'mode', 'post', 'scale'])
            if kind == 'mode':
                c['modes'] = ['ok'] * MAXN
                c['modes'][rnd.randrange(MAXN)] = rnd.choice(MODES)
            elif kind == 'post':
                c['postFail'] = [False] * MAXN
                c['postFail'][rnd.randrange(MAXN)] = True
                if rnd.random() < 0.5:
                    c['rej'] = list(c['postFail'])
            else:
                c['failScale'] = rnd.choice([1, 2])
        st.append(c)
        for i in range(1, MAXN + 1):
            for _ in range(rnd.choice([0, 1, 3, 3, 4])):
                st.append(step('scrape', i=i))
        if rnd.random() < 0.3:
            # the next cycle runs while a scrape round of one shard is under way (asked, not yet answered)
            st.append(('inflight', rnd.randint(1, MAXN)))
        x = rnd.random()
        if x < 0.15:
            st.append(step('tick'))
        elif x < 0.3:
            t = rnd.randint(1, NT)
            if t in disc:
                st.append(step('remove', t=t))
                disc.discard(t)
            else:
                st.append(step('add', t=t))
                disc.add(t)
        elif x < 0.45:
            t = rnd.randint(1, NT)
            z = gen_size(rnd, opts) if not static else dict(series=rnd.choice([1, 2, 3]), total=rnd.choice([3, 4]))
            sizes_t = z
            st.append(step('size', t=t, series=z['series'], total=z['total']))
            if rnd.random() < 0.5:
                st.append(step('probe', t=t))
        elif x < 0.55:
            st.append(step('alive', t=rnd.randint(1, NT), on=rnd.random() < 0.5))
        elif x < 0.7 and faults:
            k = rnd.random()
            if k < 0.5:
                st.append(step('restart', i=rnd.randint(1, MAXN)))
            elif k < 0.75:
                st.append(step('shrink'))
            else:
                st.append(step('recreate', i=rnd.randint(1, MAXN)))
        elif x < 0.8:
            st.append(step('probe', t=rnd.randint(1, NT)))
    # resolve the in-flight markers: the marked shard's round brackets the next cycle
    st2, pend = [], 0
    for x in st:
        if isinstance(x, tuple):
            pend = x[1]
            continue
        if x['a'] == 'cycle' and pend:
            c = dict(x)
            c['i'] = pend
            st2 += [c, step('scrape', i=pend, on=True)]
            pend = 0
        else:
            st2.append(x)
    st = st2
    quiet_from = len(st) + 1
    # the quiet tail: every discovered target probed, then cycles each followed by three scrape rounds on every shard
    for t in range(1, NT + 1):
        st.append(step('probe', t=t))
    for r in range(QUIET_ROUNDS):
        st.append(step('cycle'))
        for k in range(3):
            for i in range(1, MAXN + 1):
                st.append(step('scrape', i=i))
    return dict(id=idn, nsh0=rnd.choice([1, 1, 2]) if not static else rnd.choice([1, 2, 3]), nt=NT, opts=opts, sizes=sizes, steps=st, quietFrom=quiet_from, expectConverge=True)


def trace_cfg(opts):
    o = opts_tla(opts)
    mod = '---- MODULE MCTrace ----\nEXTENDS KvassTrace\nOpts == %s\n====\n' % o
    k = CY.MODEL_CONSTANTS
    cfg = '''CONSTANTS
  MinWait = %d
  HeadReliefChecksProc = %s
  TooBigUsesTotal = %s
  EarlyByShardCount = %s
  TailNeedsEmpty = %s
  TooBigFirst = %s
  TieBreakByOrder = %s
  RevertOrphanTransfer = %s
  ZeroNeedsPlace = TRUE
  TooBigSkipped = TRUE
  InputSet = {}
  Targets = {%s}
  MaxN = %d
  KOpts <- Opts
  Sizes = {}
  MaxClock = 100000
  FaultBudget = 100000
  EnvBudget = 100000
  InitDisc = {}
SPECIFICATION TSpec
INVARIANT Progress
CHECK_DEADLOCK FALSE
''' % (k['MinWait'], k['HeadReliefChecksProc'], k['TooBigUsesTotal'], k['EarlyByShardCount'], k['TailNeedsEmpty'], k['TooBigFirst'], k['TieBreakByOrder'], k['RevertOrphanTransfer'],
       ', '.join(str(t) for t in range(1, NT + 1)), MAXN)
    return mod, cfg


def model_cfg(spec, props, env, faults, initdisc, live=False):
    k = CY.MODEL_CONSTANTS
    return '''CONSTANTS
  MinWait = %d
  HeadReliefChecksProc = %s
  TooBigUsesTotal = %s
  EarlyByShardCount = %s
  TailNeedsEmpty = %s
  TooBigFirst = %s
  TieBreakByOrder = %s
  RevertOrphanTransfer = %s
  ZeroNeedsPlace = TRUE
  TooBigSkipped = TRUE
  InputSet = {}
  Targets = {1, 2}
  MaxN = 3
  KOpts <- Opts
  Sizes <- SizeSet
  MaxClock = 1
  FaultBudget = %d
  EnvBudget = %d
  InitDisc <- %s%s
SPECIFICATION %s
INVARIANT TypeK
PROPERTIES %s
CHECK_DEADLOCK FALSE
''' % (k['MinWait'], k['HeadReliefChecksProc'], k['TooBigUsesTotal'], k['EarlyByShardCount'], k['TailNeedsEmpty'], k['TooBigFirst'],
       k['TieBreakByOrder'], k['RevertOrphanTransfer'], faults, env, initdisc, '\n  Placements <- PlaceLive' if live else '', spec, props)


def model_runs(prop, tier):
    """(name, cfg) of the TLC runs on the closed-loop model: safety over every interleaving with environment changes
    (and one fault for C06), and liveness - eventually converged for good - under fairness of cycles, scrape rounds
    and probes (strong fairness for the latter two: they are disabled while a cycle runs)."""
    f = 1 if prop == 'C06' else 0
    runs = [('safety', model_cfg('KSpec', 'NoGap', 2 if f == 0 else 1, f, 'None'))]
    if tier == 'quick':
        runs.append(('liveness', model_cfg('KFair', 'EventuallyConverged', 0, 0, 'All')))
    else:
        runs.append(('liveness', model_cfg('KFair', 'EventuallyConverged', 0 if f else 1, f, 'All', live=True)))
    # a fault-free cycle that changed nothing is a fixpoint: whether a cycle acts does not depend on map order or random picks
    big = model_cfg('StSpec', 'Fixpoint', 1, 0, 'All').replace('MaxN = 3', 'MaxN = 2').replace('KOpts <- Opts', 'KOpts <- OptsBig').replace('Sizes <- SizeSet', 'Sizes <- SizeBig')
    runs.append(('fixpoint-big', big, 'MCStable'))
    if tier != 'quick':
        std = model_cfg('StSpec', 'Fixpoint', 1 if f else 2, f, 'All', live=True).replace('KOpts <- Opts', 'KOpts <- OptsStd').replace('Sizes <- SizeSet', 'Sizes <- SizeStd')
        runs.append(('fixpoint-std', std, 'MCStable'))
    # "within a bounded number of cycles": from every reachable state, 4 quiet rounds (probes due, one cycle, three scrape rounds
    # per shard) end in the converged state (BoundKvass.tla; 3 rounds are not enough: measured)
    fb = f if tier != 'quick' else 0
    bound = model_cfg('BSpec', '', 1, fb, 'All', live=True).replace('PROPERTIES \n', '').replace('INVARIANT TypeK', 'INVARIANT TypeK ConvergedInTime').replace(
        'InputSet = {}', 'InputSet = {}\n  Bound = 4')
    runs.append(('bound', bound, 'MCBound'))
    return runs


SIM_SIZES = [(1, 1), (2, 3), (3, 3), (4, 8), (6, 7), (8, 8), (12, 12), (3, 25)]


def sim_schedules(sd, faults, per_preset, first_id):
    """Schedules drawn from the specification itself: TLC simulates SimKvass.tla (Kvass.tla + a history of the
    externally driven steps) per option preset; the quiet tail is appended here."""
    out = []
    k = CY.MODEL_CONSTANTS
    for pi, opts in enumerate(PRESETS):
        gd = os.path.join(sd, 'sim%d' % pi)
        os.makedirs(gd)
        for f in os.listdir(sd):
            if f.endswith('.tla'):
                os.link(os.path.join(sd, f), os.path.join(gd, f))
        o = opts_tla(opts)
        open(os.path.join(gd, 'MCSim.tla'), 'w').write(
            '---- MODULE MCSim ----\nEXTENDS SimKvass\nOpts == %s\nSizeSet == {%s}\nNoneSet == {{}}\n====\n' % (
                o, ', '.join('[series |-> %d, total |-> %d]' % z for z in (SIM_SIZES if not opts.get('static') else SIM_SIZES[:3]))))
        depth = 260
        cfg = '''CONSTANTS
  MinWait = %d
  HeadReliefChecksProc = %s
  TooBigUsesTotal = %s
  EarlyByShardCount = %s
  TailNeedsEmpty = %s
  TooBigFirst = %s
  TieBreakByOrder = %s
  RevertOrphanTransfer = %s
  ZeroNeedsPlace = TRUE
  TooBigSkipped = TRUE
  InputSet = {}
  Targets = {%s}
  MaxN = %d
  KOpts <- Opts
  Sizes <- SizeSet
  MaxClock = 3
  FaultBudget = %d
  EnvBudget = 6
  InitDisc <- NoneSet
  OutFile = "sched.ndjson"
  Depth = %d
SPECIFICATION SSpec
INVARIANT Export
CHECK_DEADLOCK FALSE
''' % (k['MinWait'], k['HeadReliefChecksProc'], k['TooBigUsesTotal'], k['EarlyByShardCount'], k['TailNeedsEmpty'], k['TooBigFirst'], k['TieBreakByOrder'],
       k['RevertOrphanTransfer'], ', '.join(str(t) for t in range(1, NT + 1)), MAXN, 2 if faults else 0, depth)
        open(os.path.join(gd, 'sched.ndjson'), 'w').close()
        res = C.tlc(gd, 'MCSim', 'sim.cfg', cfg_text=cfg, workers=1, simulate='num=%d' % per_preset, depth=depth, timeout=1200)
        C.require_ok(res, 'MCSim (schedules)')
        for r in C.read_ndjson(os.path.join(gd, 'sched.ndjson')):
            st = [dict(x) for x in r['steps']]
            for x in st:
                x['modes'], x['postFail'], x['rej'], x['place'] = list(x['modes']), list(x['postFail']), list(x.get('rej') or []), [dict(p) for p in x['place']]
            quiet_from = len(st) + 1
            # a target that is down stays down; one that is discovered stays discovered
            for t in range(1, NT + 1):
                st.append(step('probe', t=t))
            for _ in range(QUIET_ROUNDS):
                st.append(step('cycle'))
                for _k in range(3):
                    for i in range(1, MAXN + 1):
                        st.append(step('scrape', i=i))
            out.append(dict(id=first_id + len(out), nsh0=1, nt=NT, opts=opts, sizes=[dict(series=z['series'], total=z['total']) for z in r['sizes']],
                            steps=st, quietFrom=quiet_from, expectConverge=True, origin='tlc-simulation'))
    return out


def run_loop(prop, tier, scratch, faults, replay=None):
    kvh = C.build_harness(scratch)
    sd = C.stage_specs(scratch)
    rnd = random.Random(C.seed() * 48271 + (17 if faults else 5))
    n = (160 if tier == 'quick' else 1200)
    if replay:
        scheds = [json.load(open(replay))['schedule']]
    else:
        scheds = [gen_schedule(rnd, i + 1, faults, handover=(prop == 'C05')) for i in range(n)]
        scheds += sim_schedules(sd, faults, 10 if tier == 'quick' else 100, n + 1)
    sf = os.path.join(sd, 'scheds.ndjson')
    C.write_ndjson(sf, scheds)
    of = os.path.join(sd, 'loopobs.ndjson')
    C.run_sharded(kvh, 'loop', sf, of)
    runs = {r['id']: r for r in C.read_ndjson(of)}
    for s in scheds:
        runs[s['id']]['quietFrom'] = s['quietFrom']
        runs[s['id']]['expectConverge'] = s['expectConverge']
    # (a) the exhaustive small model
    mc = dict(distinct=0, generated=0)
    for run in model_runs(prop, tier):
        name, cfg, module = run[0], run[1], (run[2] if len(run) > 2 else 'MCKvass')
        res = C.tlc(sd, module, 'mc-%s.cfg' % name, cfg_text=cfg, timeout=7200, heap='12g', workers=8)
        C.require_ok(res, module + ' ' + name)
        mc['distinct'] += res['distinct']
        mc['generated'] += res['generated']
    # (b) trace validation per option preset
    progress = {}
    tstates = ttrans = 0
    for pi, opts in enumerate(PRESETS):
        grp = [runs[s['id']] for s in scheds if s['opts'] == opts]
        if not grp:
            continue
        gd = os.path.join(sd, 'grp%d' % pi)
        os.makedirs(gd)
        for f in os.listdir(sd):
            if f.endswith('.tla'):
                os.link(os.path.join(sd, f), os.path.join(gd, f))
        mod, cfg = trace_cfg(opts)
        open(os.path.join(gd, 'MCTrace.tla'), 'w').write(mod)
        C.write_ndjson(os.path.join(gd, 'traces.ndjson'), [dict(id=r['id'], nsh0=r['nsh0'], sizes=r['sizes'], steps=r['steps']) for r in grp])
        res = C.tlc(gd, 'MCTrace', 'tr.cfg', cfg_text=cfg, workers=1, timeout=3000, heap='12g')
        C.require_ok(res, 'KvassTrace')
        tstates += res['distinct']
        ttrans += res['generated']
        pf = os.path.join(gd, 'progress.csv')
        if os.path.exists(pf):
            for line in open(pf):
                a, b = line.strip().split(',')
                rid = grp[int(a) - 1]['id']
                progress[rid] = max(progress.get(rid, 0), int(b))
    drift = []
    for s in scheds:
        r = runs[s['id']]
        got = progress.get(s['id'], 0)
        if got < len(r['steps']):
            nxt = r['steps'][got]
            drift.append('run %d: the real closed loop leaves Kvass.tla at step %d (%s%s): recorded world %s' % (
                s['id'], got + 1, nxt['a'], (' shard %d' % nxt['i']) if nxt['i'] else '', json.dumps(nxt['world'], sort_keys=True)[:600]))
    # (c) cycle-level formulas on every cycle of the closed loop
    pairs = []
    for s in scheds:
        for c in runs[s['id']]['cycles']:
            pairs.append(dict(id=c['in']['id'], run=s['id'], step=c['step'], **{'in': c['in'], 'out': c['out']}))
    C.write_ndjson(os.path.join(sd, 'pairs.ndjson'), pairs)
    CY.write_no_groups(sd, pairs)
    ev = C.tlc(sd, 'RebalanceEval', 'eval.cfg', cfg_text='', workers=1, timeout=3000, heap='12g')
    C.require_ok(ev, 'RebalanceEval (closed-loop cycles)')
    cviol = C.read_ndjson(os.path.join(sd, 'viol.ndjson'))
    # (d) run-level formulas
    C.write_ndjson(os.path.join(sd, 'runs.ndjson'), [dict(id=r['id'], opts=r['opts'], steps=[dict(a=x['a'], world=x['world'], real=x['real']) for x in r['steps']],
                                                          quietFrom=r['quietFrom'], expectConverge=r['expectConverge']) for r in (runs[s['id']] for s in scheds)])
    ev2 = C.tlc(sd, 'KvassEval', 'eval2.cfg', cfg_text='', workers=1, timeout=3000, heap='12g')
    C.require_ok(ev2, 'KvassEval')
    rviol = C.read_ndjson(os.path.join(sd, 'viol.ndjson'))
    return dict(scheds={s['id']: s for s in scheds}, runs=runs, mc=mc, tstates=tstates, ttrans=ttrans, drift=drift,
                pairs=pairs, cviol=cviol, rviol=rviol, progress=progress, sd=sd)


def check(prop, tier, replay=None):
    t0 = time.time()
    with C.Scratch(prop) as scratch:
        violations, cov, drift, assumptions = collect(prop, tier, scratch, prop == 'C06', replay)
        return C.conclude(prop, tier, 'model_checking', cov, t0, violations, assumptions=assumptions, drift=drift)


def check_c03(prop, tier, replay=None):
    """C03 = the closed loop + the cycle form of its last sentence ("whenever all shards are in sync and an eligible
    unscraped target cannot be placed, the requested shard count exceeds the current one") on scripted cycles."""
    return check_c05(prop, tier, replay, faults=False)


def check_c05(prop, tier, replay=None, faults=True):
    """C05 = the cycle form (scripted shards, all report combinations) + the history form (closed loop with
    real sidecars: the cycle formulas on every cycle the coordinator ran, and no gap in which a held target
    is held by nobody), without and with faults."""
    t0 = time.time()
    with C.Scratch(prop) as scratch:
        if replay and 'schedule' in json.load(open(replay)):
            v, cov, drift, ass = collect(prop, tier, scratch, faults, replay)
            return C.conclude(prop, tier, 'model_checking', cov, t0, v, assumptions=ass, drift=drift)
        v1, cov1, d1, a1 = CY.collect(prop, tier, os.path.join(scratch), replay)
        if replay:
            return C.conclude(prop, tier, 'model_checking', cov1, t0, v1, assumptions=a1, drift=d1)
        s2 = os.path.join(scratch, 'loop')
        os.makedirs(s2)
        v2, cov2, d2, a2 = collect(prop, tier, s2, faults, None)
        cov = dict(cov1)
        cov['states'] = cov1['states'] + cov2['states']
        cov['transitions'] = cov1['transitions'] + cov2['transitions']
        cov['traces_validated_against_impl'] = cov1['traces_validated_against_impl'] + cov2['traces_validated_against_impl']
        cov['evaluations'] = cov1['evaluations'] + cov2['closed_loop_cycles']
        cov['closed_loop'] = {k: cov2[k] for k in ('evaluations', 'closed_loop_cycles', 'steps_executed', 'traces_validated_against_impl')}
        cov['samples'] = cov1['samples'][:1] + cov2['samples'][:1]
        cov['rule'] = cov1['rule'] + ' | closed loop: ' + cov2['rule']
        return C.conclude(prop, tier, 'model_checking', cov, t0, v1 + v2, assumptions=a1 + a2, drift=d1 + d2)


def collect(prop, tier, scratch, faults, replay=None):
    if True:
        r = run_loop(prop, tier, scratch, faults, replay)
        violations = []
        want_cycle = {'C03': ['C03'], 'C06': [], 'C05': ['C05']}[prop]
        for v in r['cviol']:
            if v['prop'] in want_cycle:
                p = r['pairs'][v['idx'] - 1]
                violations.append(dict(sig=dict(f=v['sig'].get('f'), why=v['sig'].get('why')),
                                       replay=dict(property=prop, schedule=r['scheds'][p['run']], at_step=p['step'], cycle_input=p['in'], cycle_outcome=p['out'], violation=v['sig']),
                                       text='run %d cycle at step %d: %s' % (p['run'], p['step'], json.dumps(v['sig'], sort_keys=True))))
        for v in r['rviol']:
            f = v['sig']['f']
            if prop == 'C05' and f not in ('gap', 'source-dropped-before-hand-over'):
                continue
            if prop != 'C05' and f == 'source-dropped-before-hand-over':
                continue
            violations.append(dict(sig=dict(f=f),
                                   replay=dict(property=prop, schedule=r['scheds'][v['id']], violation=v['sig'],
                                               final_world=r['runs'][v['id']]['steps'][-1]['world']),
                                   text='run %d: %s' % (v['id'], json.dumps(v['sig'], sort_keys=True))))
        sysnote = None
        if prop == 'C06' and not replay:
            # the same run-level formulas on the whole system as separate processes
            from . import system as SY
            sviol, sysnote = SY.evaluate(scratch, r['sd'], tier, C.seed())
            for v in sviol:
                v['replay']['property'] = prop
                violations.append(v)
        ncyc = len(r['pairs'])
        nsteps = sum(len(x['steps']) for x in r['runs'].values())
        some = next(iter(r['runs'].values()))
        cov = dict(states=r['mc']['distinct'] + r['tstates'], transitions=r['mc']['generated'] + r['ttrans'],
                   traces_validated_against_impl=len(r['runs']) - len(r['drift']),
                   samples=[dict(options=some['opts'], sizes=some['sizes'], first_steps=[{k: s[k] for k in ('a', 'i', 't')} for s in some['steps'][:12]],
                                 world_after_step_12=some['steps'][min(11, len(some['steps']) - 1)]['world'])],
                   evaluations=len(r['runs']), distinct_nontrivial=sum(1 for x in r['runs'].values() if any(len(sh['assign']) for s in x['steps'] for sh in s['world']['shards'])),
                   closed_loop_cycles=ncyc, steps_executed=nsteps,
                   rule='one evaluation = one closed-loop run on the real Coordinator with real sidecars (service, targets manager + store, injector, proxy): discovery and probing of up to %d targets, '
                        '3-7 rounds of cycle / scrape rounds / environment changes (targets added, removed, growing, going down)%s, then a quiet tail of %d rounds (cycle + three scrape rounds on every shard); '
                        'non-trivial: at least one target was assigned' % (NT, ' / faults (shard unready, GET failing, config push rejected or stale, targets POST lost, scale request failing, sidecar restart from its store)' if faults else '', QUIET_ROUNDS),
                   exhaustive=False, option_presets=PRESETS, model_constants=CY.MODEL_CONSTANTS, system_processes=sysnote,
                   explanation='Kvass.tla (closed loop of one replica) is model-checked exhaustively in a small configuration (2 targets, <=3 shards, min-shard 2, a small and a large size): safety (no gap) over every interleaving with environment changes / one fault, and liveness (eventually converged for good) under fairness; every recorded run is validated step by step against Kvass.tla by TLC '
                               '(KvassTrace: the world after each environment step must be the specified one, the world after a cycle must be reachable through some order of the coordinator\'s internal steps); '
                               'TLC evaluates convergence / stability / no-gap on the recorded worlds (KvassEval) and the cycle formulas on every cycle the coordinator ran (RebalanceEval)')
        return violations, cov, r['drift'], ['scrape rounds, discovery, probing and the StatefulSet are simulated at the harness-owned boundaries; environment steps happen between cycles',
                                             'convergence is judged after %d fault-free, change-free rounds' % QUIET_ROUNDS]
