"""Single source of MANIFEST.json: run `python3 -m vlib.manifest` in /verif."""
import json, os
from . import common as C

HOOK_COMMITS = ['54e1963', '7635428']

CHECKS = {
    'C01': dict(cat='model_checking', ref='5/C01',
                text='TLC enumerates every behaviour (all map orders / random picks) of the cycle model spec/Rebalance.tla for a grid plus a seeded sample of cycle inputs; the real Coordinator is run on the same inputs, each observed outcome must be one of the model outcomes of its input (conformance), and TLC evaluates the C01 formulas (no orphan, taken only if not discovered or duplicated, no panic) of spec/RebalanceProps.tla on every observed (input, outcome) pair.',
                note='Scripted shards stand in for sidecars at Shard.APIGet/APIPost; reports are generated consistent with what a sidecar can answer; bounds: <=3 (thorough 4) shards and targets, series in units of MaxHead=10.',
                tech='TLA+ cycle model + TLC outcome enumeration; replay on real Coordinator; TLC evaluation of formulas on observations'),
    'C04': dict(cat='model_checking', ref='5/C04',
                text='Same pipeline as C01; formulas: for every shard, reported load plus the weight of everything newly posted to it stays strictly below both limits, no oversized target is placed, and oversized targets alone cause no scale-up.',
                note='Weight of a newly placed target = smallest series/total offered by any source (status answers, explorer), so the formula never demands more than the statement.',
                tech='TLA+ cycle model + TLC outcome enumeration; replay on real Coordinator; TLC evaluation of formulas on observations'),
    'C05': dict(cat='model_checking', ref='5/C05',
                text='Cycle form: same pipeline as C01. History form: the closed loop of C03/C06 (real Coordinator + real sidecars, with faults) - the same formulas on every cycle the coordinator ran there, with the scrape counters the real sidecars reported, plus no-gap on the recorded worlds (a held, discovered target is never held by nobody after a step). Formulas: an in-transfer source copy is removed only when a normal copy on another in-sync shard and the source both report >= 3 scrapes (README constant, independent of the code), and a copy newly marked in-transfer is paired with a normal copy posted to another in-sync shard in the same cycle.',
                note='Cycle form of the hand-over rule; the case of two in-transfer copies is outside the statement and excluded from the antecedent.',
                tech='TLA+ cycle model + TLC outcome enumeration; replay on real Coordinator; TLC evaluation of formulas on observations'),
    'C07': dict(cat='model_checking', ref='5/C07',
                text='Same pipeline as C01; formulas over every ChangeScale argument of the cycle (early and final): within [min,max]; never below the last shard that is out of sync, holds or was given a target, or is not idle-expired; never below the current count with max-idle-time 0 or while an eligible target stayed unplaced.',
                note='ChangeScale observed at the shard.Manager supplied by the harness.',
                tech='TLA+ cycle model + TLC outcome enumeration; replay on real Coordinator; TLC evaluation of formulas on observations'),
    'C08': dict(cat='model_checking', ref='5/C08',
                text='Same pipeline as C01 with all 8 shard health modes (not ready, either GET failing, push rejected, re-read failing, still stale, push accepted, in sync); formulas over the complete per-shard request log: nothing but GETs/config push to a shard that is not in sync, config push first and carrying the coordinator raw content, no second assignment of targets a reachable out-of-sync shard reports.',
                note='Request log recorded at Shard.APIGet/APIPost.',
                tech='TLA+ cycle model + TLC outcome enumeration; replay on real Coordinator; TLC evaluation of formulas on observations'),
}

CHECKS['C10'] = dict(cat='model_checking', ref='5/C10',
    text='spec/Sidecar.tla gives the bookkeeping as state functions; TLC checks the C10 invariants and step properties (status domain = assignment, state last requested, kept statistics, new entries start unknown with the estimates, counter reset exactly on normal->in_transfer, idle-since set/kept/cleared) exhaustively on MCSidecar (2 targets x 2 jobs, every request, bounded depth); TLC-simulated behaviours (updates, scrapes, restarts, ticks) are replayed through the real service handlers / targets manager / store / proxy and TLC (SidecarEval) validates every recorded real state against the specification operators step by step.',
    note='Requests never repeat a hash; Prometheus reload and head query simulated; virtual clock through the guarded hook.',
    tech='TLA+ functional spec; TLC exhaustive check; TLC-generated behaviours replayed on the real sidecar; TLC trace validation')
CHECKS['C14'] = dict(cat='model_checking', ref='5/C14',
    text='Same specification and replay as C10, judged on the accounting fields: per scrape the recorded totals and per-metric sums equal the payload counts known by construction (samples dropped by the real metric_relabel_configs on each sample own labels), series = integer mean of the last <=3 successful scrapes, total = last successful scrape, runtimeinfo process series = sum of totals and head series = max(Prometheus head, sum of series); invariants LoadOK / WindowOK / SeriesStep checked exhaustively on the model.',
    note='Payloads are rendered from (kept,total) with two metric names and a distinct label set per sample.',
    tech='TLA+ functional spec; TLC exhaustive check; TLC-generated behaviours replayed on the real sidecar; TLC trace validation')

CHECKS['C12'] = dict(cat='model_checking', ref='5/C12',
    text='spec/ProxyStream.tla models one proxied scrape as a streaming state machine; TLC explores it over every scenario of a finite space (body length, every chunking of the upstream reads, identity/gzip, failure kind x offset, short writes, stop, assigned) and checks C12 (exact bytes, status 200, content type) and the prefix invariant on the model; every terminal state is a replay case for the real Proxy.ServeHTTP with a scripted upstream body (unit sizes 1 B .. 300 kB by seed, comment/blank/rejected lines, cuts inside lines) and a real HTTP server/client or a scripted short-writing ResponseWriter; the real outcome must equal the predicted one and TLC (ProxyEval) evaluates C12 on the observations. spec/ProxyPair.tla composes two instances of the machine (two scrapes through the same proxy, steps interleaved in any order, nothing shared); TLC-simulated behaviours of it (400 / 4 000) are replayed on the real proxy with the upstream round trip and every upstream read gated in the order of the behaviour, and each of the two scrapes must end as the specification says it ends alone.',
    note='Prometheus-side write errors are outside the statement; gzip codec correctness is trusted (bodies are really compressed and chunked on the compressed stream).',
    tech='TLA+ streaming state machine; TLC exhaustive scenario enumeration; replay on real proxy; TLC evaluation of formulas on observations')
CHECKS['C13'] = dict(cat='model_checking', ref='5/C13',
    text='Same specifications and replays as C12 (single scrapes and interleaved pairs), for failing scenarios: connect error, non-200, timeout before headers, body breaking off (unexpected EOF, connection reset, timeout, other error) at every unit offset before and after the response headers were sent, administrative stop; formulas: failed real scrape => Prometheus sees non-200 or an aborted response (observed by a real HTTP client through the proxy), health down with error, successful => up without error, scrape counter +1 exactly once per attempt for an assigned target.',
    note='A break exactly at the end of the body is not part-way and is not generated; what an aborted response delivered before the cut is not compared (server buffering).',
    tech='TLA+ streaming state machine; TLC exhaustive scenario enumeration; replay on real proxy; TLC evaluation of formulas on observations')

CHECKS['C09'] = dict(cat='model_checking', ref='5/C09',
    text='spec/Store.tla models persisting an assignment as file-system steps (truncate-in-place or temp+sync+rename, selected by a constant pinned to the tree) with the write cut at any block, followed by two starts; TLC explores all pairs from 6 assignments (empty, one target, labels/job names needing JSON escaping and a max-uint64 hash, 60 targets, moved between jobs, other state/estimates) plus "no store yet" and checks C09 on the model; every terminal state is replayed on the real TargetsManager: a child process runs the real UpdateTargets under RLIMIT_FSIZE=byte offset (quick: 3 offsets per file, thorough: every byte offset of files < 1 kB and 150 offsets of the 19 kB file), then two fresh Load() starts are named by comparison with a and b (hash, labels, state, estimates per job, idle-since, status map); TLC (StoreEval) evaluates C09 on the real outcomes.',
    note='The file-size limit leaves exactly N bytes written (kill by SIGXFSZ or EFBIG write error give the same disk state); operating-system crashes (unsynced data) are out of scope.',
    tech='TLA+ protocol model with crash points; TLC enumeration of cases; byte-offset fault injection on the real code; TLC evaluation of formulas on observations')

CHECKS['C18'] = dict(cat='model_checking', ref='5/C18',
    text='spec/K8sShards.tla gives Shards(), ChangeScale() and Replicas() as operators; TLC enumerates every case of a bounded space (old count incl. unset, new count, 0-2 (thorough 3) claim templates, deletion flag, claim sets with a missing and a foreign claim; every permutation of up to 3 (thorough 5) pods with address patterns and gaps; pairs of StatefulSet status triples), checks C18 on the predictions, and each case is executed on the real manager over a client-go fake clientset (pod list order forced by a reactor); resulting objects, number of StatefulSet writes, shard order/address/readiness and the managers returned must equal the prediction and satisfy C18 as evaluated by TLC (K8sEval).',
    note='The fake clientset stands in for the API server; a neighbouring StatefulSet claim with a similar name is planted to detect over-deletion.',
    tech='TLA+ operators; TLC exhaustive case enumeration; replay on real manager with fake clientset; TLC evaluation of formulas on observations')

CHECKS['C17'] = dict(cat='model_checking', ref='5/C17',
    text='spec/Discovery.tla gives translation of SD updates, explorer consumption and reloads as operators; TLC checks the C17 invariants (sets follow the latest update of every configured job, reload keeps remaining jobs and removes deleted ones, explorer table = last consumed update) exhaustively on MCDiscovery (2 jobs, every update shape incl. partial rounds, dropped targets, failing groups, duplicates); TLC-simulated behaviours over 3 jobs are replayed through TargetsDiscovery.Run input channel, ApplyConfig via the real ConfigManager callbacks, Explore.UpdateTargets/ApplyConfig; TLC (DiscoveryEval) validates the state after every step, snapshot immutability, and - with reader goroutines running - that every concurrent read equals the specification value in a state of its window (linearisability).',
    note='Concurrent part samples schedules (thousands of reads per run), it does not enumerate them.',
    tech='TLA+ functional spec; TLC exhaustive check; TLC-generated behaviours replayed; TLC trace validation incl. linearisability windows')

CHECKS['C20'] = dict(cat='model_checking', ref='5/C20',
    text='spec/Explore.tla models the explorer with entry OBJECTS (a re-discovered target gets a new entry while queue, workers and retry timers may still hold the old one); TLC checks AtMostOneInFlight, NoProbeAfterRemoval, NoProbeBeforeGet, NoProbeAfterSuccess and EstimateIsSuccessfulProbe over every interleaving of the bounded model (2 targets, 2 workers, <=2 failures, bounded depth) and FailedIsRetried under weak fairness; schedules (shortest histories to every state with a stale/queued/retrying entry, plus simulated behaviours) are executed on the real Explore with blocking HTTP targets (the schedule decides order and result of completions), and TLC (ExploreEval) evaluates the history formulas of ExploreProps.tla on the recorded events: probes in flight per discovery of a target, probes of undiscovered targets, probes after success, probes before lookup, status handed out vs successful probe counts, retry within 4 retry intervals.',
    note='Real time is used only with margins (30 ms retry interval, requests arriving within 10 ms of an update count as started before it); the harness settles before every update.',
    tech='TLA+ model with object identity; TLC exhaustive interleavings + liveness; TLC-derived schedules executed on real explorer; TLC evaluation of history formulas')

CHECKS['C02'] = dict(cat='model_checking', ref='5/C02',
    text='spec/Pipeline.tla specifies, for a job shape and the label set a target has after relabeling, what plain Prometheus and what the kvass chain make of it (final labels, scheme/host/path/query really requested); TLC enumerates the whole universe (2 schemes x 2 paths x 3 param shapes x 5 address forms incl. IPv6 and missing ports x relabelled scheme/path/configured param/unconfigured param/instance x valid, invalid-name and __tmp labels x a plain label named like the param x a rejected sibling entry = 414 720 cases) and shows on the model where the paths differ; every case (quick: 6 000 by seed) is rendered to a real config and target group and run through the vendored Prometheus and through the real chain named in the property (Run -> ActiveTargetsByHash -> JSON -> injector file -> config.Load -> TargetsFromGroup -> Proxy.ServeHTTP -> URL at JobInfo.Cli); TLC (PipelineEval) decides sharded = plain on the observations.',
    note='The plain side is the vendored Prometheus library: a disagreement between model and plain side is a model error (exit 2). Relabel programs are rendered as constant replace rules; general regex semantics are the library\'s.',
    tech='TLA+ two-path label/URL model; TLC exhaustive enumeration; differential replay against vendored Prometheus; TLC evaluation on observations')
CHECKS['C15'] = dict(cat='model_checking', ref='5/C15',
    text='Same universe and replay as C02; the specification supplies the identity key of every case (all labels after relabeling + URL); the real hash from TargetsDiscovery must be one per target, unchanged when labels move between target and group, when the target is listed twice, in a second round with a fresh discovery and in another process, and the relation identity key <-> hash over all cases must be a bijection (equal identities collapse to one hash, identities differing in any label value, param, path, scheme or address get different hashes); evaluated by TLC (PipelineEval).',
    note='Collision-freeness of the 64-bit FNV hash outside the enumerated universe is not decided.',
    tech='TLA+ identity key; TLC enumeration; real hashes across arrangements, rounds and processes; TLC evaluation on observations')

CHECKS['C16'] = dict(cat='model_checking', ref='5/C16',
    text='spec/ConfigSync.tla models reloads, cosmetic changes, cycles with config push and lost pushes; what the hash can see (HashView) is a constant MEASURED on the real code: every single-leaf edit (120 loadable edits of a catalogue configuration with global, rules, alerting incl. relabeling and basic auth, two jobs with params, auth, TLS, relabel / metric relabel rules, kubernetes / file / static discovery, remote write with queue settings and relabeling, remote read), re-formattings and external-label edits are hashed by the real ConfigManager in-process, in a child process and through a real sidecar (config push + GET /runtimeinfo/); TLC decides InSyncIsTruthful for the measured view; for one edit per class the real Coordinator cycle runs against a real sidecar holding the old configuration and must push the new one before treating the shard as in sync.',
    note='Single-leaf edits only; hashstructure collisions are not excluded.',
    tech='TLA+ protocol model with measured constant; TLC; leaf-edit sweep on real ConfigManager across processes; protocol replay on real coordinator + sidecar')

CHECKS['C11'] = dict(cat='model_checking', ref='5/C11',
    text='spec/Inject.tla abstracts a configuration to its secret slots in file order and specifies marshal (masking) + restoration (mode pinned to the tree); TLC enumerates 10 080 shapes (alertmanager auth x 1-2 jobs x 5 auth kinds x 0-2 remote write x 0-2 remote read with 4 auth kinds) and checks SecretsPreserved / NoJobSecretInFile; every shape (quick: 2 500) is rendered to a real YAML with TLS, params, limits, honor flags, relabel rules and three discovery kinds, run through the real ConfigManager + Injector (both update orders, with/without self-monitor job, assignment with an empty job and an unknown job); the written file is loaded with Prometheus config.Load and compared field-wise with the original (jobs and order, static targets = assignment, proxy URL, http, no basic auth / TLS, ingestion settings, no job secret string in the file, global / rules / alerting / remote sections incl. secret values); slot values must equal the prediction; TLC (InjectEval) evaluates C11.',
    note='The loader of the vendored Prometheus is the reference for "valid configuration".',
    tech='TLA+ slot model of marshal/restore; TLC enumeration; replay on real injector; field-wise comparison after config.Load; TLC evaluation')

CHECKS['C03'] = dict(cat='model_checking', ref='5/C03',
    text='spec/Kvass.tla is the closed loop of one replica: sidecar state records (Sidecar.tla operators), StatefulSet scale, the coordinator cycle as the step-by-step actions of Rebalance.tla fed from the sidecars\' reports and applied to them, scrape rounds, discovery, explorer estimates, target sizes / liveness, clock; it is model-checked exhaustively in a small configuration: safety (no gap, also across the coordinator\'s own scale-downs) over every interleaving, and liveness - eventually converged for good - under weak fairness of the cycle and strong fairness of scrape rounds and probes. Closed-loop runs on the REAL Coordinator with REAL sidecars (service, targets manager + store, injector, proxy; simulated Prometheus, StatefulSet, targets) follow schedules drawn by TLC from the specification itself (SimKvass.tla: simulated behaviours of Kvass.tla, their externally driven steps replayed) and seeded directed schedules (discovery, probes, cycles, scrape rounds, targets added / removed / growing / going down, arbitrary initial placements, relief transfers and what they meet), each followed by 10 quiet rounds; TLC validates every run step by step against Kvass.tla (KvassTrace: environment steps deterministic, a cycle must be able to end in the recorded world through some order of the coordinator\'s internal steps) and evaluates on the recorded worlds: converged at the end of the quiet tail (every eligible target on exactly one shard in normal state, no transfer pending, no undiscovered or oversized target assigned), the last cycle changes nothing, no gap in which a held, discovered target is held by nobody; and on every cycle the coordinator ran: an eligible unplaced target with all shards in sync makes the request exceed the current count.',
    note='Convergence is judged after 10 change-free rounds of (cycle, 3 scrape rounds per shard); eligible targets are generated so that they fit into max-shard shards.',
    tech='TLA+ closed-loop model composed of Rebalance + Sidecar specs; TLC exhaustive small model; trace validation of real closed-loop runs with silent coordinator steps; TLC evaluation of run formulas')
CHECKS['C06'] = dict(cat='model_checking', ref='5/C06',
    text='Same closed loop, model and trace validation as C03, with faults injected at the harness-owned boundaries during the first phase of every run: a shard not ready, its status or runtime request failing, the config push rejected or not taking effect, the re-read failing, a targets POST lost, a scale request failing (early or final), a sidecar restarted from its store directory; after the last fault the run continues with 10 fault-free rounds and TLC evaluates on the recorded worlds that the converged state of C03 is reached (no target left in transfer, none duplicated, none unscraped) and that no held target is ever dropped by all shards.',
    note='Faults are placed by a seeded generator (one per cycle at most), not enumerated exhaustively; shards removed by scaling lose their volume.',
    tech='TLA+ closed-loop model with fault parameters; trace validation of real fault-injected runs; TLC evaluation of run formulas')

CHECKS['C19'] = dict(cat='model_checking', ref='5/C19',
    text='Independence is decided per replica and cycle by membership: the real Coordinator is run with TWO replicas (either order; the neighbour normal, failing to list its shards, entirely unready, or with a failing scale request; shared options, discovery and explorer objects) for one or two consecutive cycles, and what each replica receives (complete request logs, target POST bodies, scale requests) must be an outcome the replica gets ALONE - an element of the outcome set TLC enumerates from Rebalance.tla for its input, or an outcome observed when the real coordinator runs with that replica only (so that a change of single-replica behaviour is not blamed on independence); a replica whose listing fails gets no request while the other is coordinated completely; the per-replica formulas of RebalanceProps (C01, C04, C05, C07, C08) are evaluated by TLC on what each replica received in the joint run.',
    note='Influence is looked for in what the shards receive; the published global status (API /targets) is outside the statement.',
    tech='TLC outcome-set enumeration per replica; joint vs solo differential runs of the real coordinator over two cycles; TLC evaluation of per-replica formulas')

ALL = ['C%02d' % i for i in range(1, 21)]


def build():
    checks = []
    for pid in ALL:
        c = CHECKS.get(pid)
        if not c:
            continue
        checks.append(dict(
            property_id=pid,
            quick_cmd='bin/check %s --tier quick' % pid,
            thorough_cmd='bin/check %s --tier thorough' % pid,
            evidence_file='evidence/%s.json' % pid,
            replay_cmd_template='bin/check %s --replay {path}' % pid,
            engine='kvass-tla',
            level_claimed=dict(category=c['cat'], text=c['text'], design_ref='DESIGN.md section ' + c['ref']),
            level_note=c['note'], technique=c['tech']))
    na = [dict(property_id=p, reason=NA.get(p, 'check not built yet (work in progress; see DESIGN.md section 9)'))
          for p in ALL if p not in CHECKS]
    return dict(
        version=1,
        setup_cmd='bin/setup',
        hooks=dict(guard='verif (Go build tag)', enable='go build -tags verif (harness module /verif/harness with replace tkestack.io/kvass => /repo)',
                   baseline_off_cmd='bin/baseline_off', source_commits=HOOK_COMMITS, add_only=True),
        engines=[dict(name='kvass-tla', path='bin/check', serves_properties=[c['property_id'] for c in checks],
                      kind_free_text='TLA+ specifications (spec/*.tla) checked with TLC; Go conformance harness (harness/cmd/kvh) replays TLC-generated cases on the real code and records observations; TLC evaluates the property formulas on the observations')],
        checks=checks,
        not_applicable=na,
        notes='Exit codes: 0 held, 1 violation (VIOLATION line), 2 inconclusive (machinery failure, never a violation). Known findings: known_findings.json.')

NA = {}

if __name__ == '__main__':
    m = build()
    with open(os.path.join(C.ROOT, 'MANIFEST.json'), 'w') as f:
        json.dump(m, f, indent=1)
    print('MANIFEST.json written: %d checks, %d not_applicable' % (len(m['checks']), len(m['not_applicable'])))
