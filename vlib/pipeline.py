"""C02 / C15: label and URL pipeline, plain Prometheus vs kvass (spec/Pipeline.tla, MCPipeline.tla,
PipelineEval.tla; harness `kvh pipeline`)."""
import json, os, random, time
from . import common as C

MODEL_CONSTANTS = dict(StripChangedParams='TRUE')


def canon(o):
    return json.dumps([sorted(map(tuple, o['labels'])), o['url']['scheme'], o['url']['host'], o['url']['path'],
                       sorted((q[0], tuple(q[1])) for q in o['url']['query'])])


def mc_cfg(invs):
    return '''CONSTANTS
  StripChangedParams = %s
  OutFile = "cases.ndjson"
SPECIFICATION Spec
INVARIANTS %s
CHECK_DEADLOCK FALSE
''' % (MODEL_CONSTANTS['StripChangedParams'], ' '.join(invs))


def check(prop, tier, replay=None):
    t0 = time.time()
    with C.Scratch(prop) as scratch:
        kvh = C.build_harness(scratch)
        sd = C.stage_specs(scratch)
        cases_f = os.path.join(sd, 'cases.ndjson')
        open(cases_f, 'w').close()
        mc = C.tlc(sd, 'MCPipeline', 'mc.cfg', workers=1, cfg_text=mc_cfg(['DiffersExactly', 'Export']), timeout=3000, heap='12g')
        C.require_ok(mc, 'MCPipeline')
        cases = C.read_ndjson(cases_f)
        rnd = random.Random(C.seed() * 65537 + 11)
        if replay:
            rp = json.load(open(replay))
            cases = [c for c in cases if c['cfg'] == rp['case']['cfg'] and c['L'] == rp['case']['L']] or cases[:1]
        elif tier == 'quick':
            # keep pairs that differ in one component together: sample by blocks of L with all cfg
            rnd.shuffle(cases)
            cases = cases[:6000]
        for i, c in enumerate(cases):
            c['n'] = i
        C.write_ndjson(cases_f, [dict(n=c['n'], cfg=c['cfg'], L=c['L']) for c in cases])
        obs_f = os.path.join(sd, 'obs.ndjson')
        C.run_sharded(kvh, 'pipeline', cases_f, obs_f)
        obs = {o['n']: o['obs'] for o in C.read_ndjson(obs_f)}
        # second pass in other processes (different sharding) for a sample: hashes must not depend on the process
        second = [c for c in cases if c['n'] % 7 == 0]
        s_f, s_o = os.path.join(sd, 'second.ndjson'), os.path.join(sd, 'second_obs.ndjson')
        C.write_ndjson(s_f, [dict(n=c['n'], cfg=c['cfg'], L=c['L']) for c in second])
        C.run_sharded(kvh, 'pipeline', s_f, s_o, nproc=5)
        hashes2 = {o['n']: o['obs']['hashes'] for o in C.read_ndjson(s_o)}
        # conformance of the specification's predictions (both paths)
        drift, modelerr = [], []
        bykey, byhash = {}, {}
        for c in cases:
            o = obs.get(c['n'])
            if o is None:
                raise C.Inconclusive('no observation for case %d' % c['n'])
            rp = [canon(x) for x in o['plain']]
            rs = [canon(x) for x in o['sharded']]
            if rp != [canon(c['plain'])]:
                modelerr.append(c)
            elif rs != [canon(c['sharded'])]:
                drift.append('case cfg=%s L=%s: Pipeline.tla predicts sharded %s, observed %s %s' % (
                    json.dumps(c['cfg'], sort_keys=True), json.dumps(c['L'], sort_keys=True), canon(c['sharded']), rs, o.get('err', '')))
            hs = set(o['hashes']) | set(hashes2.get(c['n'], []))
            bykey.setdefault(c['hashkey'], set()).update(hs)
            for h in hs:
                byhash.setdefault(h, set()).add(c['hashkey'])
        if modelerr:
            c = modelerr[0]
            raise C.Inconclusive('Pipeline.tla mispredicts PLAIN Prometheus for %d cases (model error), e.g. cfg=%s L=%s observed %s' % (
                len(modelerr), c['cfg'], c['L'], obs[c['n']]['plain']))
        C.write_ndjson(os.path.join(sd, 'obs.ndjson'), [dict(n=c['n'], obs=obs[c['n']]) for c in cases])
        C.write_ndjson(os.path.join(sd, 'groups.ndjson'),
                       [dict(kind='key', key=k, members=sorted(v)) for k, v in bykey.items()] +
                       [dict(kind='hash', key=h, members=sorted(v)) for h, v in byhash.items()])
        ev = C.tlc(sd, 'PipelineEval', 'eval.cfg', cfg_text='', workers=1, timeout=3000, heap='12g')
        C.require_ok(ev, 'PipelineEval')
        viol = C.read_ndjson(os.path.join(sd, 'viol.ndjson'))
        violations = []
        for v in viol:
            if v['prop'] != prop:
                continue
            if v['n'] >= 0:
                c = cases[v['n']]
                sig = dict(which=v['which'])
                if prop == 'C02':
                    # the case class: is it the one the specification itself says differs (configured param changed by relabeling)?
                    sig['configured_param_relabelled'] = bool(c['differs'])
                violations.append(dict(sig=sig, replay=dict(property=prop, case=dict(cfg=c['cfg'], L=c['L']), observed=obs[c['n']], which=v['which']),
                                       text='%s: cfg=%s L=%s plain=%s sharded=%s' % (v['which'], json.dumps(c['cfg'], sort_keys=True), json.dumps(c['L'], sort_keys=True),
                                                                                      [canon(x) for x in obs[c['n']]['plain']], [canon(x) for x in obs[c['n']]['sharded']])))
            else:
                violations.append(dict(sig=dict(which=v['which']), replay=dict(property=prop, group=v['group']),
                                       text='%s: %s' % (v['which'], json.dumps(v['group'])[:500])))
        nontriv = len(cases) if prop == 'C02' else len(bykey)
        cov = dict(states=mc['distinct'], transitions=mc['generated'], traces_validated_against_impl=len(cases) - len(drift),
                   samples=[dict(cfg=c['cfg'], L=c['L'], plain=obs[c['n']]['plain'], sharded=obs[c['n']]['sharded'], hashes=obs[c['n']]['hashes']) for c in cases[:2]],
                   evaluations=len(cases), distinct_nontrivial=nontriv, identity_keys=len(bykey), distinct_hashes=len(byhash),
                   cases_hashed_in_a_second_process=len(hashes2),
                   rule='one evaluation = one (job shape, post-relabel label set) case of the enumerated universe (414 720 cases; quick tier: 6 000 by seed) rendered to a real '
                        'scrape config (scheme, metrics_path, params, constant replace rules) and target group, pushed through the vendored Prometheus (plain) and through the real kvass chain '
                        '(discovery, JSON, sidecar update, injector file, config.Load, shard-side TargetsFromGroup, proxy request, URL at the http client); for C15 additionally with labels moved to the '
                        'group, the target listed twice, a second round in a fresh discovery and a second process',
                   exhaustive=(tier == 'thorough'), model_constants=MODEL_CONSTANTS,
                   explanation='TLC enumerates Pipeline.tla over the whole universe and checks that the two specified paths differ exactly where relabeling changed a configured param; the real plain path '
                               'must equal the specified plain path (else the model is wrong: exit 2), the real sharded path the specified sharded path (conformance), and TLC (PipelineEval) decides '
                               'sharded = plain (C02) and the hash <-> identity relation (C15) on the real observations')
        return C.conclude(prop, tier, 'model_checking', cov, t0, violations,
                          assumptions=['regex semantics beyond constant replace rules are the Prometheus library\'s (exercised, not modelled)',
                                       'FNV collisions outside the enumerated universe are not excluded'], drift=drift)
