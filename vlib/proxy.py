"""C12 / C13: the sidecar proxy as a streaming state machine (spec/ProxyStream.tla, ProxyProps.tla,
MCProxyStream.tla, ProxyEval.tla; harness `kvh proxy`)."""
import json, os, random, time
from . import common as C

# constants of the model that mirror the current /repo
MODEL_CONSTANTS = dict(AbortAfterHeaders='TRUE', ResetIsEOF='FALSE')
PINNED_CONSTANTS = dict(AbortAfterHeaders='FALSE', ResetIsEOF='TRUE')


def mc_cfg(maxlen, invariants, consts):
    return '''CONSTANTS
  AbortAfterHeaders = %s
  ResetIsEOF = %s
  Scenarios <- MCScenarios
  MaxLen = %d
  OutFile = "cases.ndjson"
SPECIFICATION Spec
INVARIANTS %s
CHECK_DEADLOCK FALSE
''' % (consts['AbortAfterHeaders'], consts['ResetIsEOF'], maxlen, ' '.join(invariants))


def conformance_fields(sc, out):
    f = ['counted', 'health', 'errset']
    if sc['enc'] == 'gzip' and sc['fail']['kind'] in ('eof', 'reset', 'timeout', 'other') and sc['fail']['off'] > 0:
        # where a truncated gzip stream stops decoding (before or after the first forwarded byte, i.e.
        # 400 or abort) is the codec's business: only the bookkeeping is compared
        return f
    if out.get('aborted'):
        # how much of an aborted response reached the client before the connection was cut is up to
        # the HTTP server's buffering: only the fact of the abort and the bookkeeping are compared
        return f + ['aborted']
    f += ['status', 'aborted', 'ctype']
    if sc['enc'] == 'identity':
        f.append('fwd')
    return f


def check(prop, tier, replay=None):
    t0 = time.time()
    with C.Scratch(prop) as scratch:
        kvh = C.build_harness(scratch)
        sd = C.stage_specs(scratch)
        maxlen = 3 if tier == 'quick' else 4
        cases_f = os.path.join(sd, 'cases.ndjson')
        open(cases_f, 'w').close()
        # (1) exhaustive exploration of the model over the scenario space, formulas checked on the model
        mc = C.tlc(sd, 'MCProxyStream', 'mc.cfg', workers=1,
                   cfg_text=mc_cfg(maxlen, ['PrefixInv', 'Export', 'Inv_C12', 'Inv_C13'], MODEL_CONSTANTS), timeout=3000)
        C.require_ok(mc, 'MCProxyStream')
        cases = C.read_ndjson(cases_f)
        if replay:
            cases = [c for c in [json.load(open(replay))['case']]]
        rnd = random.Random(C.seed() * 104729 + 5)
        units = [1, 7, 40, 333, 5000] if tier == 'quick' else [1, 7, 40, 333, 5000, 70000, 300000]
        for c in cases:
            c['sc']['unit'] = c['sc'].get('unit') or rnd.choice(units)
        if tier == 'quick' and not replay:
            rnd.shuffle(cases)
            cases = cases[:1500]
        C.write_ndjson(cases_f, cases)
        # (2) replay on the real proxy
        obs_f = os.path.join(sd, 'obs.ndjson')
        C.run_sharded(kvh, 'proxy', cases_f, obs_f, extra=['-seed', str(C.seed())])
        obs = C.read_ndjson(obs_f)
        # (2b) two scrapes at the same time: behaviours of ProxyPair.tla (interleavings of two ProxyStream instances)
        # replayed with gated upstream bodies; every scrape must end as it does alone
        pairs_f = os.path.join(sd, 'pairs.ndjson')
        open(pairs_f, 'w').close()
        npairs = 0
        pstats = dict(states=0, transitions=0, overlapping=0, followed=0, tokens=0)
        if not replay or 'pair' in json.load(open(replay)):
            nsim = 400 if tier == 'quick' else 4000
            pm = C.tlc(sd, 'MCProxyPair', 'pair.cfg', workers=1, simulate='num=%d' % nsim, depth=14, timeout=3000, cfg_text='''CONSTANTS
  AbortAfterHeaders = %s
  ResetIsEOF = %s
  PairScenarios <- MCPairScenarios
  OutFile = "pairs.ndjson"
SPECIFICATION Spec
INVARIANTS Inv_Pair Export
CHECK_DEADLOCK FALSE
''' % (MODEL_CONSTANTS['AbortAfterHeaders'], MODEL_CONSTANTS['ResetIsEOF']))
            C.require_ok(pm, 'MCProxyPair')
            pstats['states'], pstats['transitions'] = pm['distinct'], pm['generated']
            seenp, plist = set(), []
            for r in C.read_ndjson(pairs_f):
                k = json.dumps(r, sort_keys=True)
                if k not in seenp:
                    seenp.add(k)
                    plist.append(r)
            if replay:
                plist = [json.load(open(replay))['pair']]
            for i, r in enumerate(plist):
                r['n'] = i
                for x in ('scA', 'scB'):
                    r[x]['unit'] = r[x].get('unit') or rnd.choice([7, 40, 333, 5000])
            C.write_ndjson(pairs_f, plist)
            pobs_f = os.path.join(sd, 'pairobs.ndjson')
            # few processes, many pairs each: the decoder pool of a process is shared by all its scrapes
            C.run_sharded(kvh, 'proxypair', pairs_f, pobs_f, extra=['-seed', str(C.seed())], nproc=4)
            byn = {r['n']: r for r in plist}
            for po in C.read_ndjson(pobs_f):
                if po['stuck']:
                    raise C.Inconclusive('pair replay got stuck: %s' % json.dumps(po)[:300])
                npairs += 1
                pstats['overlapping'] += 1 if byn[po['n']]['overlap'] else 0
                pstats['followed'] += po['followed']
                pstats['tokens'] += po['tokens']
                for x in 'AB':
                    obs.append(dict(sc=po['sc' + x], out=po['out' + x], obs=po['obs' + x], pair=byn[po['n']]))
            C.write_ndjson(obs_f, [dict(sc=o['sc'], out=o['out'], obs=o['obs']) for o in obs])
        # (3) conformance: the real outcome equals the outcome the specification predicts
        drift = []
        for o in obs:
            diff = [f for f in conformance_fields(o['sc'], o['out']) if o['out'][f] != o['obs'][f]]
            if diff:
                drift.append('scenario %s: real proxy differs from ProxyStream.tla in %s (model %s, observed %s)' % (
                    json.dumps(o['sc'], sort_keys=True), diff, {f: o['out'][f] for f in diff}, {f: o['obs'][f] for f in diff}))
        # (4) verdict: TLC evaluates C12 / C13 on the observations
        ev = C.tlc(sd, 'ProxyEval', 'eval.cfg', cfg_text='', workers=1, timeout=3000)
        C.require_ok(ev, 'ProxyEval')
        viol = C.read_ndjson(os.path.join(sd, 'viol.ndjson'))
        stats = (C.read_ndjson(os.path.join(sd, 'evalstats.ndjson')) or [{}])[0]
        violations = []
        for v in viol:
            if v['prop'] != prop:
                continue
            o = obs[v['idx'] - 1]
            sc = o['sc']
            rp = dict(property=prop, case=dict(sc=sc, out=o['out']), observed=o['obs'], which=v['which'])
            sig = dict(which=v['which'], kind=sc['fail']['kind'], stop=sc['stop'])
            if 'pair' in o:
                rp['pair'] = o['pair']
                sig['concurrent'] = True
            violations.append(dict(
                sig=sig,
                replay=rp,
                text='%s in scenario %s: observed %s' % (v['which'], json.dumps(sc, sort_keys=True), json.dumps(o['obs'], sort_keys=True))))
        cov = dict(states=mc['distinct'], transitions=mc['generated'],
                   traces_validated_against_impl=len(obs) - len(drift),
                   samples=[dict(scenario=o['sc'], model=o['out'], observed=o['obs']) for o in obs[:3]],
                   evaluations=len(obs), distinct_nontrivial=stats.get('nontrivial', {}).get(prop, 0),
                   concurrent_pairs=npairs, concurrent_pair_stats=pstats,
                   rule='one evaluation = one scenario of the exhaustively enumerated space (body length <= %d units, every chunking, identity/gzip, '
                        'every failure kind at every offset, short writes, stop, assigned or not) replayed through the real Proxy.ServeHTTP with a scripted '
                        'upstream body and a real HTTP client/server pair (or a scripted ResponseWriter for short writes) on the Prometheus side, or one of the two scrapes of a '
                        'simulated behaviour of ProxyPair.tla (two scrapes through the same proxy, their request / read steps interleaved as the behaviour says by gating the upstream); unit sizes '
                        '%s bytes chosen by seed; non-trivial: successful scrapes (C12) / failed or stopped scrapes (C13), counted by TLC' % (maxlen, units),
                   exhaustive=(tier == 'thorough'), model_constants=MODEL_CONSTANTS,
                   explanation='TLC explores ProxyStream.tla over all scenarios and checks C12/C13 on the model; every (sampled in quick tier) terminal '
                               'state is one replay case; TLC (ProxyEval) evaluates the same formulas on what the real proxy did')
        return C.conclude(prop, tier, 'model_checking', cov, t0, violations,
                          assumptions=['Prometheus-side write errors are outside C12/C13 and not generated',
                                       'a failure exactly at the end of the body is not "part-way" and not generated'], drift=drift)
