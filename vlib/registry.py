from . import cycle
CHECKS = {}
for p in cycle.PROPS:
    CHECKS[p] = cycle.check
