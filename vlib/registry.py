from . import coordapi, staticshards
from . import cycle, sidecar, proxy, store, k8s, discovery, explore, pipeline, cfgsync, inject, loop, replicas
CHECKS = {}
for p in cycle.PROPS:
    CHECKS[p] = cycle.check
CHECKS['C10'] = sidecar.check
CHECKS['C14'] = sidecar.check
CHECKS['C12'] = proxy.check
CHECKS['C13'] = proxy.check
CHECKS['C09'] = store.check
CHECKS['C18'] = k8s.check
CHECKS['C17'] = discovery.check
CHECKS['C20'] = explore.check
CHECKS['C02'] = pipeline.check
CHECKS['C15'] = pipeline.check
CHECKS['C16'] = cfgsync.check
CHECKS['C11'] = inject.check
CHECKS['C03'] = loop.check_c03
CHECKS['C06'] = loop.check
CHECKS['C19'] = replicas.check
CHECKS['C05'] = loop.check_c05
# beyond the listed properties (evidence under /verif/evidence/extra)
EXTRA = {'X01': coordapi.check, 'X02': staticshards.check}
CHECKS.update(EXTRA)
