from . import cycle, sidecar
CHECKS = {}
for p in cycle.PROPS:
    CHECKS[p] = cycle.check
CHECKS['C10'] = sidecar.check
CHECKS['C14'] = sidecar.check
