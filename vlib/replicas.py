"""C19: replicas are coordinated independently (spec/Rebalance.tla per replica; harness `kvh cycle` with
several replicas and two consecutive cycles of the same coordinator)."""
import copy, json, os, random, time
from . import common as C
from . import cycle as CY


def gen_case(rnd, idn):
    base = CY.gen_input(rnd, 'x', 3, 3)
    k = max([t for s in base['shards'] for t in [e['t'] for e in s['report']]] + base['active'] + [e['t'] for e in base['explore']] + [1])

    def shards_like():
        g = CY.gen_input(rnd, 'y', 3, k)
        # same options / discovery / explorer for every replica: only the shards differ
        for s in g['shards']:
            s['report'] = [e for e in s['report'] if e['t'] <= k]
            s['proc'] = sum(e['total'] for e in s['report'])
            s['head'] = max(s['head'], sum(e['series'] for e in s['report']))
            if s['report']:
                s['idle'] = 'none'
        return g['shards']

    def replica(kind):
        r = dict(shards=shards_like(), failScale=0, listFail=False)
        if kind == 'listfail':
            r['listFail'] = True
        elif kind == 'allnotready':
            for s in r['shards']:
                s['mode'] = 'notready'
        elif kind == 'failscale':
            r['failScale'] = rnd.choice([1, 2])
        return r
    kindA = rnd.choice(['normal', 'normal', 'normal', 'listfail', 'allnotready', 'failscale'])
    A, B = replica(kindA), replica('normal')
    case = dict(id='c%d' % idn, opts=base['opts'], active=base['active'], explore=base['explore'], kindA=kindA,
                order=rnd.choice(['AB', 'BA']), A=A, B=B, two=rnd.random() < 0.6)
    if case['two']:
        case['A2'], case['B2'] = replica(kindA if kindA != 'failscale' else 'normal'), replica('normal')
    return case


def single(case, rep, cyc):
    r = case[rep + ('2' if cyc == 2 else '')]
    return dict(id='%s-%s-%d' % (case['id'], rep, cyc), opts=case['opts'], shards=r['shards'], active=case['active'], explore=case['explore'],
                failScale=r['failScale'])


def check(prop, tier, replay=None):
    t0 = time.time()
    with C.Scratch(prop) as scratch:
        kvh = C.build_harness(scratch)
        sd = C.stage_specs(scratch)
        rnd = random.Random(C.seed() * 69621 + 29)
        n = 500 if tier == 'quick' else 6000
        cases = [json.load(open(replay))['case']] if replay else [gen_case(rnd, i) for i in range(n)]
        # (1) per replica and cycle: every outcome Rebalance.tla allows for it alone
        singles = []
        for c in cases:
            for rep in 'AB':
                for cyc in ([1, 2] if c['two'] else [1]):
                    if not c[rep + ('2' if cyc == 2 else '')]['listFail']:
                        singles.append(single(c, rep, cyc))
        inf = os.path.join(sd, 'inputs.ndjson')
        C.write_ndjson(inf, singles)
        outf = os.path.join(sd, 'outcomes.ndjson')
        open(outf, 'w').close()
        res = C.tlc(sd, 'MCRebalance', 'gen.cfg', workers=1, cfg_text=CY.cfg_text('inputs.ndjson', 'outcomes.ndjson', CY.MODEL_CONSTANTS, ['TypeOK', 'Export']),
                    timeout=3000, heap='12g')
        C.require_ok(res, 'MCRebalance (per replica)')
        model = {}
        for r in C.read_ndjson(outf):
            model.setdefault(r['id'], set()).add(CY.canon_out(r['out']))
        # (2) the real coordinator with both replicas (two cycles), and with each replica alone
        joint, solo = [], []
        for c in cases:
            order = list(c['order'])
            j = dict(id=c['id'], opts=c['opts'], active=c['active'], explore=c['explore'], replicas=[c[x] for x in order])
            if c['two']:
                j['replicas2'] = [c[x + '2'] for x in order]
            joint.append(j)
            for rep in 'AB':
                s = dict(id='%s-%s' % (c['id'], rep), opts=c['opts'], active=c['active'], explore=c['explore'], replicas=[c[rep]])
                if c['two']:
                    s['replicas2'] = [c[rep + '2']]
                solo.append(s)
        jf, jo = os.path.join(sd, 'joint.ndjson'), os.path.join(sd, 'joint_obs.ndjson')
        sf, so = os.path.join(sd, 'solo.ndjson'), os.path.join(sd, 'solo_obs.ndjson')
        C.write_ndjson(jf, joint)
        C.write_ndjson(sf, solo)
        C.run([kvh, 'cycle', '-in', jf, '-out', jo, '-reps', '3', '-workers', str(C.ncpu())], timeout=3000)
        C.run([kvh, 'cycle', '-in', sf, '-out', so, '-reps', '4', '-workers', str(C.ncpu())], timeout=3000)
        soloset = {}
        for o in C.read_ndjson(so):
            cid, rep = o['id'].rsplit('-', 1)
            for k, out in enumerate(o['outs']):
                soloset.setdefault('%s-%s-%d' % (cid, rep, k + 1), set()).add(CY.canon_out(out))
        bycase = {c['id']: c for c in cases}
        violations, pairs, checked = [], [], 0
        for o in C.read_ndjson(jo):
            c = bycase[o['id']]
            order = list(c['order'])
            for k, out in enumerate(o['outs']):
                rep, cyc = order[k % 2], 1 + k // 2
                key = '%s-%s-%d' % (c['id'], rep, cyc)
                r = c[rep + ('2' if cyc == 2 else '')]
                other = c[('B' if rep == 'A' else 'A') + ('2' if cyc == 2 else '')]
                if r['listFail']:
                    if any(out['reqs'][i] for i in range(len(out['reqs']))) or out['scales']:
                        violations.append(dict(sig=dict(f='requests-to-a-replica-whose-shards-could-not-be-listed'), replay=dict(property=prop, case=c, observed=out),
                                               text='case %s replica %s' % (c['id'], rep)))
                    continue
                checked += 1
                pairs.append(dict(id=key, **{'in': single(c, rep, cyc), 'out': out}))
                co = CY.canon_out(out)
                if co not in model.get(key, ()) and co not in soloset.get(key, ()):
                    violations.append(dict(
                        sig=dict(f='depends-on-the-other-replica', other=('list-failed' if other['listFail'] else 'all-unready' if all(s['mode'] == 'notready' for s in other['shards']) else 'scale-failed' if other['failScale'] else 'normal'), cycle=cyc),
                        replay=dict(property=prop, case=c, replica=rep, cycle=cyc, observed=out, outcomes_alone=len(soloset.get(key, ())), outcomes_model=len(model.get(key, ()))),
                        text='case %s: what replica %s receives in cycle %d next to the other replica (%s) is not an outcome it gets alone: %s' % (
                            c['id'], rep, cyc, c['kindA'], json.dumps(out, sort_keys=True)[:500])))
        # (3) the per-replica guarantees, on what each replica received in the joint run
        C.write_ndjson(os.path.join(sd, 'pairs.ndjson'), pairs)
        CY.write_no_groups(sd, pairs)
        ev = C.tlc(sd, 'RebalanceEval', 'eval.cfg', cfg_text='', workers=1, timeout=3000, heap='12g')
        C.require_ok(ev, 'RebalanceEval (per replica)')
        for v in C.read_ndjson(os.path.join(sd, 'viol.ndjson')):
            if v['prop'] == 'C03':
                continue
            p = pairs[v['idx'] - 1]
            violations.append(dict(sig=dict(f='per-replica-' + v['prop'] + '-' + str(v['sig'].get('f'))), replay=dict(property=prop, pair=p, violation=v['sig']),
                                   text='%s: %s %s' % (p['id'], v['prop'], json.dumps(v['sig'], sort_keys=True))))
        sysnote = None
        if not replay:
            # the closed loop with two replicas, as separate processes: each replica converges on its own, also while the
            # other one does not answer at all
            from . import system as SY
            sviol, sysnote = SY.evaluate(scratch, sd, tier, C.seed(), nrep=2)
            for v in sviol:
                v['replay']['property'] = prop
                violations.append(v)
        cov = dict(states=res['distinct'], transitions=res['generated'], traces_validated_against_impl=checked - sum(1 for v in violations if v['sig']['f'] == 'depends-on-the-other-replica'),
                   samples=[dict(case={k: cases[0][k] for k in ('opts', 'active', 'explore', 'kindA', 'order', 'two')}, replica_A=cases[0]['A'], replica_B=cases[0]['B'])],
                   evaluations=checked, distinct_nontrivial=sum(1 for c in cases if c['two'] or c['kindA'] != 'normal'),
                   rule='one evaluation = what one replica received in one cycle of the real Coordinator run with TWO replicas (either order; the other replica normal, failing to list its shards, entirely '
                        'unready, or with a failing scale request; same options, discovery and explorer objects), in the first and - 60%% of the cases - in a second cycle of the same coordinator; it must be an '
                        'outcome the replica gets ALONE (TLC-enumerated outcome set of Rebalance.tla for its input, or observed in runs of the real coordinator with that replica only); non-trivial: second cycle or failing neighbour',
                   exhaustive=False, cases=len(cases), system_processes=sysnote,
                   explanation='independence is decided by membership of the jointly observed outcome in the set of outcomes of the replica alone (specification and real code), per replica and cycle; the '
                               'per-replica formulas of RebalanceProps are evaluated by TLC on the same observations')
        return C.conclude(prop, tier, 'model_checking', cov, t0, violations,
                          assumptions=['cross-replica influence is looked for in the requests the shards receive (targets, config, scale), not in the published global status'])
