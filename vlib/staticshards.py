"""X02 (beyond the listed properties): the static shard manager (spec/StaticShards.tla, StaticEval.tla; harness `kvh static`)."""
import json, os, random, time
from . import common as C


def check(prop, tier, replay=None):
    t0 = time.time()
    with C.Scratch(prop) as scratch:
        kvh = C.build_harness(scratch)
        sd = C.stage_specs(scratch)
        rnd = random.Random(C.seed() * 911 + 7)
        cases = []
        for n in range(200 if tier == 'quick' else 2000):
            file = [[dict(id='shard-%d-%d' % (r, k), url='http://10.%d.0.%d:8080' % (r, k)) for k in range(rnd.choice([0, 1, 2, 3, 12]))] for r in range(rnd.choice([0, 1, 2, 3]))]
            cases.append(dict(file=file, reqs=[rnd.choice([0, 1, 5, 100]) for _ in range(rnd.choice([0, 1, 3]))]))
        if replay:
            cases = [json.load(open(replay))['case']]
        inf, outf = os.path.join(sd, 'static.ndjson'), os.path.join(sd, 'obs.ndjson')
        C.write_ndjson(inf, cases)
        C.run([kvh, 'static', '-in', inf, '-out', outf], timeout=600)
        obs = C.read_ndjson(outf)
        ev = C.tlc(sd, 'StaticEval', 'eval.cfg', cfg_text='', workers=1, timeout=600)
        C.require_ok(ev, 'StaticEval')
        violations = []
        for v in C.read_ndjson(os.path.join(sd, 'viol.ndjson')):
            o = obs[v['idx'] - 1]
            violations.append(dict(sig=dict(which=v['which']), replay=dict(property=prop, case=dict(file=o['file'], reqs=o['reqs']), observed=o),
                                   text='%s: %s' % (v['which'], json.dumps(o)[:400])))
        cov = dict(states=0, transitions=0, traces_validated_against_impl=len(obs) - len(violations), samples=obs[:1], evaluations=len(obs),
                   distinct_nontrivial=sum(1 for o in obs if o['file'] and o['reqs']),
                   rule='one evaluation = one file of replicas / shards with a sequence of scale requests on the real static.ReplicasManager; non-trivial: shards and requests present',
                   exhaustive=False, explanation='StaticShards.tla gives the listing as a function of the file and says scale requests change nothing; TLC (StaticEval) compares the real answers')
        return C.conclude(prop, tier, 'model_checking', cov, t0, violations)
