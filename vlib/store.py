"""C09: persistence of the sidecar's assignment with crash / write-failure points
(spec/Store.tla, StoreProps.tla, MCStore.tla, StoreEval.tla; harness `kvh store`)."""
import json, os, random, time
from . import common as C

MODEL_CONSTANTS = dict(AtomicStore='TRUE', LoadFailRewrites='TRUE')
PINNED_CONSTANTS = dict(AtomicStore='FALSE', LoadFailRewrites='TRUE')
NAMES = ['A0', 'A1', 'A2', 'A3', 'A4', 'A5']
NB = 3


def mc_cfg(consts, invariants):
    return '''CONSTANTS
  AtomicStore = %s
  LoadFailRewrites = %s
  Cases <- MCCases
  OutFile = "cases.ndjson"
  Names = {%s}
  NB = %d
SPECIFICATION Spec
INVARIANTS %s
CHECK_DEADLOCK FALSE
''' % (consts['AtomicStore'], consts['LoadFailRewrites'], ', '.join('"%s"' % n for n in NAMES), NB, ' '.join(invariants))


def check(prop, tier, replay=None):
    t0 = time.time()
    with C.Scratch(prop) as scratch:
        kvh = C.build_harness(scratch)
        sd = C.stage_specs(scratch)
        cases_f = os.path.join(sd, 'cases.ndjson')
        open(cases_f, 'w').close()
        mc = C.tlc(sd, 'MCStore', 'mc.cfg', workers=1, cfg_text=mc_cfg(MODEL_CONSTANTS, ['Export', 'Inv_C09']), timeout=1800)
        C.require_ok(mc, 'MCStore')
        cases = C.read_ndjson(cases_f)
        # every abstract cut inside the file (0 < cut < NB) stands for "some byte offset inside": refine it
        # into concrete byte offsets (quick: a few; thorough: every byte offset of every file)
        rnd = random.Random(C.seed() * 31337 + 3)
        sizes = dict(A0=46, A1=219, A2=745, A3=19000, A4=219, A5=230)   # only to pick offsets; the harness clamps
        conc = []
        if replay:
            conc = [json.load(open(replay))['case_record']]
        else:
            for c in cases:
                cs = c['case']
                if cs['cut'] == 0 or cs['cut'] == cs['nblocks']:
                    conc.append(dict(case=dict(cs, bytes=(0 if cs['cut'] == 0 else -1), how='fail'), out=c['out']))
                    if cs['cut'] == 0:
                        # nothing written: also what a failing update callback (Prometheus reload) leaves behind
                        conc.append(dict(case=dict(cs, bytes=0, how='cbfail'), out=c['out']))
                        if not cs['retry']:
                            conc.append(dict(case=dict(cs, bytes=0, how='kill'), out=c['out']))
                    continue
                n = sizes[cs['b']]
                if tier == 'thorough' and n <= 1000:
                    offs = list(range(1, n)) if cs['cut'] == 1 else []     # every byte once (cut classes 1..NB-1 are the same class)
                elif tier == 'thorough':
                    offs = sorted(set(rnd.randrange(1, n) for _ in range(150)))
                else:
                    offs = sorted(set([1, n - 1, rnd.randrange(1, n)]))
                for off in offs:
                    # the write failing at that byte (disk full) and the process being killed at that byte
                    conc.append(dict(case=dict(cs, bytes=off, how='fail'), out=c['out']))
                    if (tier == 'quick' or off % 3 == 0 or n > 1000) and not cs['retry']:
                        conc.append(dict(case=dict(cs, bytes=off, how='kill'), out=c['out']))
        C.write_ndjson(cases_f, conc)
        obs_f = os.path.join(sd, 'obs.ndjson')
        C.run_sharded(kvh, 'store', cases_f, obs_f)
        obs = C.read_ndjson(obs_f)
        # the real binary (cmd/kvass sidecar): assignment acknowledged over HTTP, process killed, started twice on the same store
        nbin = 0
        if not replay:
            from . import binary as B
            bobs = B.run_cases(scratch)
            nbin = len(bobs)
            obs += bobs
            C.write_ndjson(obs_f, obs)
        drift = []
        for o in obs:
            m, r = o['out'], o['obs']
            mm = (m['acked'], [(s['ok'], s['resumed'] if s['ok'] else '-') for s in m['starts']])
            rr = (r['acked'], [(s['ok'], s['resumed'] if s['ok'] else '-') for s in r['starts']])
            if o['case']['a'] == 'none' and o['case']['b'] == 'A0':
                # the child's own first start already stores the empty assignment with the same idle instant
                # the update of b would keep: "nothing yet" and b cannot be told apart
                mm = (mm[0], [(k, 'A0' if n == 'empty' else n) for k, n in mm[1]])
                rr = (rr[0], [(k, 'A0' if n == 'empty' else n) for k, n in rr[1]])
            if mm != rr:
                drift.append('case %s: Store.tla predicts %s, the real targets manager did %s' % (json.dumps(o['case'], sort_keys=True), mm, rr))
        ev = C.tlc(sd, 'StoreEval', 'eval.cfg', cfg_text='', workers=1, timeout=1800)
        C.require_ok(ev, 'StoreEval')
        viol = C.read_ndjson(os.path.join(sd, 'viol.ndjson'))
        stats = (C.read_ndjson(os.path.join(sd, 'evalstats.ndjson')) or [{}])[0]
        violations = []
        for v in viol:
            o = obs[v['idx'] - 1]
            cut = o['case']['cut']
            violations.append(dict(
                sig=dict(which=v['which'], cut=('start' if cut == 0 else 'inside' if cut < o['case']['nblocks'] else 'complete')),
                replay=dict(property=prop, case_record=dict(case=o['case'], out=o['out']), observed=o['obs'], which=v['which']),
                text='%s: case %s observed %s' % (v['which'], json.dumps(o['case'], sort_keys=True), json.dumps(o['obs'], sort_keys=True)[:400])))
        cov = dict(states=mc['distinct'], transitions=mc['generated'], traces_validated_against_impl=len(obs) - len(drift),
                   samples=[dict(case=o['case'], model=o['out'], observed=o['obs']) for o in obs[:3]],
                   evaluations=len(obs), distinct_nontrivial=stats.get('nontrivial', 0), runs_of_the_real_binary=nbin,
                   rule='one evaluation = one (previous assignment a, new assignment b, byte offset at which writing stops) run of the real '
                        'TargetsManager.UpdateTargets(b) in a child process under RLIMIT_FSIZE=offset, followed by two fresh Load() starts; '
                        'non-trivial: the write is cut before completion (counted by TLC)',
                   exhaustive=(tier == 'thorough'), model_constants=MODEL_CONSTANTS,
                   explanation='TLC explores Store.tla (write protocol with cut points, two starts) over all pairs of %d assignments (empty, one target, '
                               'escaping-heavy labels and job names, 60 targets, moved between jobs, other state/estimates) plus "no store yet", checks C09 on '
                               'the model; every terminal state is replayed on the real code at concrete byte offsets; TLC (StoreEval) evaluates C09 on what the '
                               'two real starts resumed' % len(NAMES))
        return C.conclude(prop, tier, 'fault_enumeration' if False else 'model_checking', cov, t0, violations,
                          assumptions=['RLIMIT_FSIZE stops the write after exactly N bytes (process killed by SIGXFSZ or write failing with EFBIG: same bytes on disk)',
                                       'crashes of the operating system (unsynced renames) are out of scope'], drift=drift)
