"""The whole system as separate processes: the real `kvass coordinator` (static shard list, real service discovery, real
explorer) and real `kvass sidecar` processes, talking over real HTTP; simulated are only the Prometheus instances (a
reload endpoint that reads the generated configuration and a scrape loop through the sidecar's proxy) and the targets
(HTTP servers that answer with a page of the given size).  The scenario follows behaviours of spec/Kvass.tla with static
shards: start, a sidecar killed and restarted on its store, a Prometheus that refuses reloads while a target is added, a
target removed.  Snapshots of the real world (every sidecar's status, what every Prometheus has loaded) are taken all
the time; TLC evaluates the run-level formulas of KvassProps on them (KvassEval): converged at the end of every quiet
phase, and no gap between snapshots."""
import http.client, json, os, signal, subprocess, threading, time, urllib.request, urllib.parse
from http.server import BaseHTTPRequestHandler, ThreadingHTTPServer
import yaml
from . import common as C
from . import binary as B

SCRAPE_EVERY = 0.15
CYCLE = '250ms'
DEADLINE = 90.0        # a quiet phase converges in about 3 s; this is the bound after which it is called stuck


class Conn:
    """One connection that is kept open (every request on a connection of its own would leave a socket waiting for a minute:
    a scenario makes some ten thousand requests, and the local ports are shared with everything else on the machine)."""

    def __init__(self, hostport):
        self.hostport, self.c = hostport, None

    def request(self, method, url, body=None, timeout=5):
        data = None if body is None else json.dumps(body).encode()
        for attempt in (0, 1):
            try:
                if self.c is None:
                    self.c = http.client.HTTPConnection(self.hostport, timeout=timeout)
                self.c.request(method, url, body=data, headers={'Content-Type': 'application/json'} if data else {})
                r = self.c.getresponse()
                txt = r.read()
                if r.will_close:
                    self.close()
                return r.status, txt
            except Exception:
                self.close()
                if attempt:
                    raise
        raise RuntimeError('unreachable')

    def json(self, method, url, body=None, timeout=5):
        st, txt = self.request(method, url, body, timeout)
        if st >= 300:
            raise RuntimeError('HTTP %d' % st)
        return json.loads(txt.decode()) if txt.strip() else {}

    def close(self):
        try:
            if self.c is not None:
                self.c.close()
        except Exception:
            pass
        self.c = None


class QuietServer(ThreadingHTTPServer):
    """a peer that goes away in the middle of an answer (a killed process, a scrape that timed out) is not worth a trace"""
    daemon_threads = True

    def handle_error(self, request, client_address):
        pass


class TargetSrv:
    def __init__(self, tid, series):
        self.tid, self.series, self.alive = tid, series, True
        outer = self

        class H(BaseHTTPRequestHandler):
            protocol_version = 'HTTP/1.1'

            def log_message(self, *a):
                pass

            def do_GET(self):
                if not outer.alive:
                    self.send_error(503)
                    return
                body = ''.join('m_%d{i="%d"} 1\n' % (outer.tid, k) for k in range(outer.series)).encode()
                self.send_response(200)
                self.send_header('Content-Type', 'text/plain; version=0.0.4')
                self.send_header('Content-Length', str(len(body)))
                self.end_headers()
                self.wfile.write(body)
        self.srv = QuietServer(('127.0.0.1', 0), H)
        self.addr = '127.0.0.1:%d' % self.srv.server_address[1]
        threading.Thread(target=self.srv.serve_forever, daemon=True).start()

    def close(self):
        self.srv.shutdown()
        self.srv.server_close()


class FakeProm:
    """What a shard's Prometheus does for kvass: take a reload (read the generated file), scrape what it has loaded."""

    def __init__(self, genfile):
        self.genfile, self.refuse, self.loaded, self.scrapes, self.stop, self.refused, self.loaded_text = genfile, False, [], 0, False, 0, ''
        self.lock = threading.Lock()
        self.conn = None
        outer = self

        class H(BaseHTTPRequestHandler):
            def log_message(self, *a):
                pass

            def do_POST(self):
                if outer.refuse:
                    outer.refused += 1
                    self.send_error(503, 'not ready')
                    return
                outer.load()
                self.send_response(200)
                self.end_headers()

            def do_GET(self):
                body = json.dumps(dict(status='success', data=dict(headStats=dict(numSeries=0)))).encode()
                self.send_response(200)
                self.send_header('Content-Type', 'application/json')
                self.end_headers()
                self.wfile.write(body)
        self.srv = QuietServer(('127.0.0.1', 0), H)
        self.url = 'http://127.0.0.1:%d' % self.srv.server_address[1]
        threading.Thread(target=self.srv.serve_forever, daemon=True).start()
        threading.Thread(target=self.loop, daemon=True).start()

    def load(self):
        out = []
        try:
            text = open(self.genfile).read()
            cfg = yaml.safe_load(text) or {}
        except Exception:
            return
        self.loaded_text = text
        for job in cfg.get('scrape_configs') or []:
            proxy = job.get('proxy_url')
            for g in job.get('static_configs') or []:
                lb = g.get('labels') or {}
                for addr in g.get('targets') or []:
                    q = {k[len('__param_'):]: v for k, v in lb.items() if k.startswith('__param_')}
                    for k, v in (job.get('params') or {}).items():
                        q.setdefault(k, v[0] if v else '')
                    url = '%s://%s%s?%s' % (lb.get('__scheme__', job.get('scheme', 'http')), lb.get('__address__', addr),
                                            lb.get('__metrics_path__', job.get('metrics_path', '/metrics')), urllib.parse.urlencode(q))
                    out.append(dict(url=url, proxy=proxy, hash=int(q.get('_hash', 0)), addr=lb.get('__address__', addr), job=job.get('job_name')))
        with self.lock:
            self.loaded = out

    def loop(self):
        while not self.stop:
            with self.lock:
                ts = list(self.loaded)
            for t in ts:
                try:
                    hp = urllib.parse.urlparse(t['proxy']).netloc
                    if self.conn is None or self.conn.hostport != hp:
                        self.conn = Conn(hp)
                    self.conn.request('GET', t['url'], timeout=3)      # (absolute URL: the request of a client that uses a proxy)
                except Exception:
                    pass
                self.scrapes += 1
            time.sleep(SCRAPE_EVERY)

    def close(self):
        self.stop = True
        self.srv.shutdown()
        self.srv.server_close()


class Shard:
    def __init__(self, binp, d, idx):
        self.binp, self.dir, self.idx = binp, d, idx
        os.makedirs(os.path.join(d, 'store'), exist_ok=True)
        self.gen = os.path.join(d, 'injected.yml')
        self.prom = FakeProm(self.gen)
        self.api = 'http://127.0.0.1:%d' % B.free_port()
        self.proxy = '127.0.0.1:%d' % B.free_port()
        self.proc = None
        self.conn = None

    def start(self):
        self.proc = subprocess.Popen([self.binp, 'sidecar', '--store.path=' + os.path.join(self.dir, 'store'), '--config.file=',
                                      '--config.output-file=' + self.gen, '--web.api-addr=' + self.api[len('http://'):],
                                      '--web.proxy-addr=' + self.proxy, '--inject.proxy=http://' + self.proxy,
                                      '--prometheus.url=' + self.prom.url, '--shard.fetch-head-series=false'],
                                     stdout=open(os.path.join(self.dir, 'sidecar.log'), 'ab'), stderr=subprocess.STDOUT)
        for _ in range(200):
            if self.proc.poll() is not None:
                return False
            try:
                B.http('GET', self.api + '/api/v1/shard/targets/status/', timeout=1)
                return True
            except Exception:
                time.sleep(0.05)
        return False

    def kill(self):
        if self.proc and self.proc.poll() is None:
            self.proc.send_signal(signal.SIGKILL)
            self.proc.wait()

    def status(self):
        if self.conn is None:
            self.conn = Conn(self.api[len('http://'):])
        st = self.conn.json('GET', '/api/v1/shard/targets/status/', timeout=3)['data'] or {}
        rt = self.conn.json('GET', '/api/v1/shard/runtimeinfo/', timeout=3)['data']
        return st, rt


class System:
    def __init__(self, scratch, binp, sizes, nshards, opts, nrep=1):
        self.d = os.path.join(scratch, 'system')
        os.makedirs(self.d, exist_ok=True)
        self.opts = opts
        self.targets = [TargetSrv(i + 1, s) for i, s in enumerate(sizes)]
        self.disc = set()
        self.shards = [Shard(binp, os.path.join(self.d, 'shard-%d' % i), i) for i in range(nshards * nrep)]
        self.reps = [self.shards[r * nshards:(r + 1) * nshards] for r in range(nrep)]
        self.cfgfile = os.path.join(self.d, 'prometheus.yml')
        self.static = os.path.join(self.d, 'static-shards.yaml')
        yaml.safe_dump(dict(replicas=[dict(shards=[dict(id='shard-%d' % s.idx, url=s.api) for s in rp]) for rp in self.reps]), open(self.static, 'w'))
        self.web = '127.0.0.1:%d' % B.free_port()
        self.binp = binp
        self.coord = None
        self.snaps = [[] for _ in self.reps]      # per replica
        self.byhash = {}
        self.timeout = '10s'

    def write_cfg(self):
        """the targets come from a file_sd file: adding or removing one does not change the configuration (and its hash)"""
        sdfile = os.path.join(self.d, 'targets.json')
        tmp = sdfile + '.tmp'
        json.dump([dict(targets=[self.targets[t - 1].addr for t in sorted(self.disc)])], open(tmp, 'w'))
        os.replace(tmp, sdfile)
        cfg = dict(**{'global': dict(scrape_interval='15s', scrape_timeout=self.timeout)},
                   scrape_configs=[dict(job_name='j1', file_sd_configs=[dict(files=[sdfile], refresh_interval='1s')])])
        if not os.path.exists(self.cfgfile) or yaml.safe_load(open(self.cfgfile)) != cfg:
            tmp = self.cfgfile + '.tmp'
            yaml.safe_dump(cfg, open(tmp, 'w'))
            os.replace(tmp, self.cfgfile)

    def start(self):
        for s in self.shards:
            if not s.start():
                raise C.Inconclusive('a kvass sidecar process did not come up')
        self.write_cfg()
        self.start_coordinator()

    def start_coordinator(self):
        o = self.opts
        self.coord = subprocess.Popen([self.binp, 'coordinator', '--shard.type=static', '--shard.static-file=' + self.static,
                                       '--config.file=' + self.cfgfile, '--coordinator.interval=' + CYCLE,
                                       '--shard.max-process-series=%d' % o['maxProc'], '--shard.max-head-series=%d' % o['maxHead'],
                                       '--shard.min-shard=%d' % o['minShard'], '--shard.max-shard=%d' % o['maxShard'],
                                       '--web.address=' + self.web, '--sd.init-timeout=20s'],
                                      stdout=open(os.path.join(self.d, 'coordinator.log'), 'ab'), stderr=subprocess.STDOUT)
        for _ in range(400):
            if self.coord.poll() is not None:
                raise C.Inconclusive('the kvass coordinator process exited at once')
            try:
                B.http('GET', 'http://' + self.web + '/api/v1/runtimeinfo', timeout=1)
                return
            except Exception:
                time.sleep(0.05)
        raise C.Inconclusive('the kvass coordinator process did not come up')

    def reload_coordinator(self):
        self.write_cfg()
        for attempt in range(4):
            try:
                B.http('POST', 'http://' + self.web + '/-/reload', timeout=30)
                return
            except Exception as e:
                # (a loaded machine: the answer can take its time; the reload of an unchanged file is harmless)
                err = e
                time.sleep(2)
        raise C.Inconclusive('the coordinator did not answer the reload request: %s' % err)

    def tid_of(self, h):
        if h in self.byhash:
            return self.byhash[h]
        for s in self.shards:
            with s.prom.lock:
                for t in s.prom.loaded:
                    for x in self.targets:
                        if x.addr == t['addr']:
                            self.byhash[t['hash']] = x.tid
        # a hash nobody has loaded yet: read it from the generated files
        for s in self.shards:
            try:
                cfg = yaml.safe_load(open(s.gen)) or {}
                for job in cfg.get('scrape_configs') or []:
                    for g in job.get('static_configs') or []:
                        lb = g.get('labels') or {}
                        for x in self.targets:
                            if x.addr == lb.get('__address__'):
                                self.byhash[int(lb.get('__param__hash', 0))] = x.tid
            except Exception:
                pass
        return self.byhash.get(h, 0)

    def snapshot(self, label):
        """one world per replica; None for a replica of which a sidecar does not answer"""
        return [self.snapshot_rep(label, r) for r in range(len(self.reps))]

    def snapshot_rep(self, label, rep):
        """the world of one replica in the shape of Kvass!World"""
        shards = []
        for s in self.reps[rep]:
            try:
                st, rt = s.status()
            except Exception:
                return None
            rows = []
            for h, v in st.items():
                rows.append(dict(h=self.tid_of(int(h)), state=v['TargetState'], health=v['health'], err=bool(v['lastError']),
                                 times=min(int(v['ScrapeTimes']), 3), series=v['series'], total=v['totalSeries']))
            with s.prom.lock:
                loaded = sorted(set(self.tid_of(t['hash']) for t in s.prom.loaded))
            if any(r['h'] == 0 for r in rows) or 0 in loaded:
                return None      # a hash that can not be named yet (its generated file is being written)
            shards.append(dict(assign=[], status=sorted(rows, key=lambda r: r['h']), idleAt=-1 if rt.get('IdleStartAt') is None else 0, loaded=loaded))
        n = len(self.targets)
        w = dict(nsh=len(shards), clock=0, shards=shards, disc=sorted(self.disc),
                 size=[dict(series=t.series, total=t.series) for t in self.targets], alive=[t.alive for t in self.targets],
                 est=[dict(known=True, health='up' if t.alive else 'down', series=t.series, total=t.series) for t in self.targets])
        self.snaps[rep].append(dict(a=label, world=w, real=[[] for _ in shards]))
        return w

    def converged(self, w):
        if w is None:
            return False
        for t in sorted(self.disc):
            if not self.targets[t - 1].alive:
                continue
            holders = [(i, r) for i, sh in enumerate(w['shards']) for r in sh['status'] if r['h'] == t]
            if len(holders) != 1 or holders[0][1]['state'] != '' or holders[0][1]['health'] != 'up' or t not in w['shards'][holders[0][0]]['loaded']:
                return False
        for sh in w['shards']:
            for r in sh['status']:
                if r['h'] not in self.disc or r['state'] != '':
                    return False
        return True

    def quiet(self, label, deadline=DEADLINE, hold=1.2, reps=None):
        """nothing is changed from outside until the world (every replica, or the named ones) has been converged for `hold`
        seconds (or the deadline passes)"""
        t0, since = time.monotonic(), None
        while time.monotonic() - t0 < deadline:
            ws = self.snapshot(label)
            if all(self.converged(ws[r]) for r in (reps if reps is not None else range(len(self.reps)))):
                since = since or time.monotonic()
                if time.monotonic() - since >= hold:
                    return True
            else:
                since = None
            time.sleep(0.1)
        self.snapshot(label)
        return False

    def close(self):
        for p in [self.coord] + [s.proc for s in self.shards]:
            if p and p.poll() is None:
                p.send_signal(signal.SIGKILL)
                p.wait()
        for s in self.shards:
            s.prom.close()
        for t in self.targets:
            t.close()


def scenario(scratch, binp, rnd, nrep=1):
    """one run; returns (run records for KvassEval - one per phase and replica -, notes)"""
    opts = dict(maxHead=10, maxProc=20, minShard=1, maxShard=4, maxIdle=0, noAlleviate=False, static=True)
    # (two fixed shards: sizes that fit whatever way the first assignments pack them)
    sizes = [3, 3, 2, rnd.choice([1, 2]), 1]
    sysm = System(scratch, binp, sizes, 2, opts, nrep)
    notes = []
    try:
        sysm.disc = {1, 2, 3, 4}
        sysm.start()
        phases = []
        phases.append(('start', sysm.quiet('start')))
        # a sidecar is killed and started again on its store
        k = rnd.randrange(len(sysm.shards))
        sysm.shards[k].kill()
        time.sleep(rnd.choice([0.0, 0.3]))
        if not sysm.shards[k].start():
            raise C.Inconclusive('the restarted sidecar did not come up')
        phases.append(('restart', sysm.quiet('restart')))
        # the coordinator is killed and started again: it keeps nothing, and nothing changes
        sysm.coord.send_signal(signal.SIGKILL)
        sysm.coord.wait()
        sysm.start_coordinator()
        phases.append(('coordinator-restart', sysm.quiet('coordinator-restart')))
        if nrep > 1:
            # a whole replica does not answer while a target is added: the other replicas are coordinated all the same
            down = 0      # the replica that is coordinated first: whatever happens to it, the later ones get their turn
            for sh in sysm.reps[down]:
                sh.kill()
            sysm.disc.add(5)
            sysm.write_cfg()
            phases.append(('replica-down', sysm.quiet('replica-down', reps=[r for r in range(nrep) if r != down])))
            for sh in sysm.reps[down]:
                if not sh.start():
                    raise C.Inconclusive('a restarted sidecar did not come up')
            phases.append(('replica-back', sysm.quiet('replica-back')))
            sysm.disc.discard(5)
            sysm.write_cfg()
            phases.append(('removed-5', sysm.quiet('removed-5')))
        # a target is added while one shard's Prometheus refuses reloads for a while
        j = -1
        for sh in sysm.shards:         # (whichever shard is given the new target: its reload is refused, the update has to come again)
            sh.prom.refuse = True
        sysm.disc.add(5)
        sysm.write_cfg()
        t0 = time.monotonic()
        while time.monotonic() - t0 < 1.5:
            sysm.snapshot('refusing')
            time.sleep(0.1)
        for sh in sysm.shards:
            sh.prom.refuse = False
        phases.append(('reload-refused', sysm.quiet('reload-refused')))
        # a target grows: its shard may become overloaded and hand a target over to the other one
        if not sysm.snaps[0]:
            raise C.Inconclusive('no sample of the first replica could be taken')
        g, w = rnd.choice([1, 2]), sysm.snaps[0][-1]['world']
        newsize = 6
        for sh in sorted(w['shards'], key=lambda sh: -sum(r['series'] for r in sh['status'])):
            load = sum(r['series'] for r in sh['status'])
            if len(sh['status']) >= 2:
                big = max(sh['status'], key=lambda r: r['series'])
                if big['series'] + (11 - load) <= 9:        # the shard reaches the first relief threshold, the target still fits a shard
                    g, newsize = big['h'], max(big['series'] + (11 - load), big['series'] + 1)
                break
        sysm.targets[g - 1].series = newsize
        phases.append(('grown', sysm.quiet('grown', hold=2.5)))
        # a target leaves the configuration
        gone = rnd.choice([3, 4])
        sysm.disc.discard(gone)
        sysm.write_cfg()
        phases.append(('removed', sysm.quiet('removed')))
        # the configuration is edited (another scrape timeout) while every Prometheus refuses reloads: the pushes are answered
        # with errors; the shards may take part again only when they run the new configuration
        for sh in sysm.shards:
            sh.prom.refuse = True
        sysm.timeout = '9s'
        sysm.reload_coordinator()
        t0 = time.monotonic()
        while time.monotonic() - t0 < 1.2:
            sysm.snapshot('push-refused')
            time.sleep(0.1)
        for sh in sysm.shards:
            sh.prom.refuse = False
        phases.append(('push-refused', sysm.quiet('push-refused')))
        # ... every Prometheus ends up running the edited configuration (nothing else happens that would make it reload)
        t0, ok = time.monotonic(), False
        while time.monotonic() - t0 < DEADLINE / 3 and not ok:
            ok = all('scrape_timeout: 9s' in sh.prom.loaded_text for sh in sysm.shards)
            time.sleep(0.2)
        sysm.snapshot('prometheus-runs-the-pushed-configuration')
        phases.append(('prometheus-runs-the-pushed-configuration', ok))
        # and the target comes back
        sysm.disc.add(gone)
        sysm.write_cfg()
        phases.append(('added-again', sysm.quiet('added-again')))
        # the formulas look at the end of a run; every phase is judged on its own cut of the samples of every replica
        runs = []
        for rep, steps in enumerate(sysm.snaps):
            for name, ok in phases:
                idx = [i for i, x in enumerate(steps) if x['a'] == name]
                if not idx:
                    continue       # (the replica that was down during that phase)
                runs.append(dict(phase=name, replica=rep, converged_in_time=ok, steps=steps[:idx[-1] + 1], quietFrom=idx[-1] + 1, expectConverge=True, opts=opts))
        allsteps = [x for st in sysm.snaps for x in st]
        return runs, dict(sizes=sizes, replicas=nrep, restarted=k, grown=g, removed=gone, snapshots=len(allsteps), scrapes=[s.prom.scrapes for s in sysm.shards],
                          reloads_refused=sum(s.prom.refused for s in sysm.shards),
                          snapshots_with_a_transfer_pending=sum(1 for x in allsteps if any(r['state'] != '' for sh in x['world']['shards'] for r in sh['status'])))
    finally:
        sysm.close()


def run_scenario(scratch, name, binp, rnd, nrep):
    for attempt in range(3):
        try:
            return scenario(os.path.join(scratch, name + ('' if attempt == 0 else '-retry%d' % attempt)), binp, rnd, nrep)
        except Exception as e:
            # a process that does not come up, a request that times out on a loaded machine: once more, later
            if attempt == 2:
                if isinstance(e, C.Inconclusive):
                    raise
                raise C.Inconclusive('the process-level scenario could not be run: %r' % (e,))
            time.sleep(20)


def judge(sd, name, runs, note):
    """TLC evaluates KvassProps on the sampled worlds of one scenario; returns violation records"""
    ed = os.path.join(sd, 'syseval-' + name)
    os.makedirs(ed)
    for f in os.listdir(sd):
        if f.endswith('.tla'):
            os.link(os.path.join(sd, f), os.path.join(ed, f))
    for k, r in enumerate(runs):
        r['id'] = 900000 + k
    C.write_ndjson(os.path.join(ed, 'runs.ndjson'), [dict(id=r['id'], opts=r['opts'], steps=r['steps'], quietFrom=r['quietFrom'], expectConverge=True) for r in runs])
    ev = C.tlc(ed, 'KvassEval', 'eval.cfg', cfg_text='', workers=1, timeout=1200, heap='8g')
    C.require_ok(ev, 'KvassEval (system runs)')
    viol = []
    byid = {r['id']: r for r in runs}
    flagged = set()
    for v in C.read_ndjson(os.path.join(ed, 'viol.ndjson')):
        r = byid[v['id']]
        if v['sig']['f'] == 'gap':
            # a sidecar takes an update over before it runs the callbacks and puts it back when they fail: a sample taken in
            # between sees a holder that never scraped the target.  Only a holder that has scraped counts for a gap.
            before = r['steps'][v['sig']['at'] - 2]['world']
            if not any(x['h'] == v['sig']['t'] and x['times'] > 0 for sh in before['shards'] for x in sh['status']):
                continue
        flagged.add(v['id'])
        viol.append(dict(sig=dict(f='system:' + v['sig']['f'], phase=r['phase']),
                         replay=dict(scenario=note, phase=r['phase'], violation=v['sig'], final_world=r['steps'][-1]['world']),
                         text='real processes, replica %d, phase %s: %s' % (r['replica'], r['phase'], json.dumps(v['sig'], sort_keys=True))))
    for r in runs:
        if not r['converged_in_time'] and r['id'] not in flagged:
            viol.append(dict(sig=dict(f='system:not-reached-in-time', phase=r['phase']),
                             replay=dict(scenario=note, phase=r['phase'], final_world=r['steps'][-1]['world']),
                             text='real processes, replica %d, phase %s: not reached in time' % (r['replica'], r['phase'])))
    return viol


def evaluate(scratch, sd, tier, seed, nrep=1):
    """Runs the scenarios and lets TLC evaluate KvassProps on the recorded worlds; returns (violations, coverage notes).
    These runs depend on real time on a machine that is shared with other runs: a scenario that shows a violation is run a
    second time with the same choices, and only what both runs show (same formula, same phase) is reported."""
    import random
    binp = B.build(scratch)
    rnd = random.Random(seed * 977 + 5)
    viol, notes, nphases, repeated = [], [], 0, 0
    for k in range(1 if tier == 'quick' else (4 if nrep == 1 else 2)):
        state = rnd.getstate()
        rs, n = run_scenario(scratch, 'sys%d' % k, binp, rnd, nrep)
        v1 = judge(sd, 'sys%d' % k, rs, n)
        if v1:
            repeated += 1
            after = rnd.getstate()
            rnd.setstate(state)
            rs2, n2 = run_scenario(scratch, 'sys%d-again' % k, binp, rnd, nrep)
            rnd.setstate(after)
            v2 = judge(sd, 'sys%d-again' % k, rs2, n2)
            both = set((x['sig']['f'], x['sig']['phase']) for x in v2)
            v1 = [x for x in v1 if (x['sig']['f'], x['sig']['phase']) in both]
        viol += v1
        notes.append(n)
        nphases += len(rs)
    return viol, dict(system_runs=len(notes), scenarios_run_again=repeated, phases=nphases, snapshots=sum(n['snapshots'] for n in notes), proxied_scrapes=sum(sum(n['scrapes']) for n in notes), reloads_refused=sum(n['reloads_refused'] for n in notes),
                      snapshots_with_a_transfer_pending=sum(n['snapshots_with_a_transfer_pending'] for n in notes),
                      what='real `kvass coordinator` and `kvass sidecar` processes over HTTP (static shard list, real discovery and explorer); simulated Prometheus instances '
                           'and targets; phases: start, sidecar killed and restarted on its store, coordinator killed and restarted, (with several replicas: a whole replica down while a target is added, back, target removed,) target added while every Prometheus refuses reloads for 1.5 s, target growing (relief hand-over between processes), target removed, configuration edited while every Prometheus refuses reloads')
